//! Support crate for the compiled-corpus engine (E2): echo handlers, mock contexts, case reader,
//! observation helpers.  Generated corpus programs depend on this crate and on /repo/sylvia.
#![allow(clippy::all, deprecated)]

use std::collections::BTreeMap;
use std::fmt::{Debug, Display};
use std::marker::PhantomData;
use std::panic::{catch_unwind, AssertUnwindSafe};

pub use serde_json::{json, Value};
pub use sylvia;
pub use sylvia::cw_std as cw;

use cw::testing::{MockApi, MockQuerier, MockStorage};
use cw::{
    to_json_string, Addr, Api, Binary, BlockInfo, Coin, ContractInfo, CustomQuery, Deps, DepsMut, Empty, Env,
    MessageInfo, Order, OwnedDeps, QuerierWrapper, Response, StdError, StdResult, Storage, Timestamp,
    TransactionInfo, Uint128,
};
use serde::de::DeserializeOwned;
use serde::Serialize;

pub mod types;
pub use types::*;

// ---------------------------------------------------------------------------------------------
// cases and observations

#[derive(Clone, Debug, Default)]
pub struct Case {
    pub n: u64,
    pub prog: String,
    pub op: String,
    pub kind: String,
    pub part: String,
    pub input: Vec<u8>,
    pub ctx: Value,
    pub extra: Value,
}

pub type Obs = Value;

pub trait Subject: Sync {
    fn run(&self, case: &Case) -> Obs;
}

fn unhex(s: &str) -> Vec<u8> {
    (0..s.len() / 2)
        .map(|i| u8::from_str_radix(&s[2 * i..2 * i + 2], 16).unwrap())
        .collect()
}

pub fn hex(b: &[u8]) -> String {
    b.iter().map(|x| format!("{:02x}", x)).collect()
}

pub fn parse_case(line: &str) -> Case {
    let v: Value = serde_json::from_str(line).expect("case json");
    Case {
        n: v["n"].as_u64().unwrap_or(0),
        prog: v["prog"].as_str().unwrap_or("").to_string(),
        op: v["op"].as_str().unwrap_or("").to_string(),
        kind: v["kind"].as_str().unwrap_or("").to_string(),
        part: v["part"].as_str().unwrap_or("").to_string(),
        input: unhex(v["input"].as_str().unwrap_or("")),
        ctx: v.get("ctx").cloned().unwrap_or(Value::Null),
        extra: v.get("extra").cloned().unwrap_or(Value::Null),
    }
}

/// Main loop of a shard binary: read cases, run each on its program, write observations.
pub fn main_loop(registry: Vec<(&'static str, Box<dyn Subject>)>) {
    let args: Vec<String> = std::env::args().collect();
    if args.len() < 3 {
        eprintln!("usage: shard <cases.jsonl> <obs.jsonl>");
        std::process::exit(2);
    }
    std::panic::set_hook(Box::new(|_| {}));
    let reg: BTreeMap<&'static str, Box<dyn Subject>> = registry.into_iter().collect();
    let data = std::fs::read_to_string(&args[1]).expect("read cases");
    let lines: Vec<&str> = data.lines().filter(|l| !l.trim().is_empty()).collect();
    let nthreads: usize = std::env::var("VERIF_E2_THREADS").ok().and_then(|s| s.parse().ok()).unwrap_or(4);
    let next = std::sync::atomic::AtomicUsize::new(0);
    let results = std::sync::Mutex::new(Vec::<(usize, String)>::new());
    std::thread::scope(|sc| {
        for _ in 0..nthreads {
            sc.spawn(|| {
                let mut local = vec![];
                loop {
                    let i = next.fetch_add(1, std::sync::atomic::Ordering::SeqCst);
                    if i >= lines.len() {
                        break;
                    }
                    let case = parse_case(lines[i]);
                    let obs = match reg.get(case.prog.as_str()) {
                        None => json!({"machinery": format!("unknown program {}", case.prog)}),
                        Some(s) => match catch_unwind(AssertUnwindSafe(|| s.run(&case))) {
                            Ok(o) => o,
                            Err(p) => json!({"panic": panic_msg(&p)}),
                        },
                    };
                    local.push((i, json!({"n": case.n, "obs": obs}).to_string()));
                }
                results.lock().unwrap().extend(local);
            });
        }
    });
    let mut res = results.into_inner().unwrap();
    res.sort();
    let mut out = String::new();
    for (_, l) in res {
        out.push_str(&l);
        out.push('\n');
    }
    std::fs::write(&args[2], out).expect("write obs");
}

pub fn panic_msg(p: &Box<dyn std::any::Any + Send>) -> String {
    if let Some(m) = p.downcast_ref::<String>() {
        m.clone()
    } else if let Some(m) = p.downcast_ref::<&str>() {
        m.to_string()
    } else {
        "non-string panic".into()
    }
}

/// Runs `f`, turning a panic into an observation.
pub fn guarded<F: FnOnce() -> Obs>(f: F) -> Obs {
    match catch_unwind(AssertUnwindSafe(f)) {
        Ok(o) => o,
        Err(p) => json!({"panic": panic_msg(&p)}),
    }
}

// ---------------------------------------------------------------------------------------------
// mock context built from a case's ctx spec

pub const PROBE_BALANCE_ADDR: &str = "probe_addr";

pub struct Cx<Q: CustomQuery + DeserializeOwned = Empty> {
    pub deps: OwnedDeps<MockStorage, MockApi, MockQuerier<Q>, Q>,
    pub env: Env,
    pub info: MessageInfo,
}

fn coins_of(v: &Value) -> Vec<Coin> {
    v.as_array()
        .map(|a| {
            a.iter()
                .map(|c| Coin {
                    denom: c[0].as_str().unwrap_or("").to_string(),
                    amount: Uint128::new(c[1].as_str().unwrap_or("0").parse().unwrap_or(0)),
                })
                .collect()
        })
        .unwrap_or_default()
}

impl<Q: CustomQuery + DeserializeOwned> Cx<Q> {
    pub fn new(ctx: &Value) -> Self {
        let mut storage = MockStorage::default();
        if let Some(m) = ctx.get("storage").and_then(|s| s.as_object()) {
            for (k, v) in m {
                storage.set(k.as_bytes(), v.as_str().unwrap_or("").as_bytes());
            }
        }
        let api = match ctx.get("api_prefix").and_then(|p| p.as_str()) {
            Some("osmo") => MockApi::default().with_prefix("osmo"),
            _ => MockApi::default(),
        };
        let bal: u128 = ctx.get("balance").and_then(|b| b.as_str()).and_then(|s| s.parse().ok()).unwrap_or(0);
        let coins = [Coin { denom: "atom".into(), amount: Uint128::new(bal) }];
        let querier = MockQuerier::<Q>::new(&[(PROBE_BALANCE_ADDR, &coins[..])]);
        let height = ctx.get("height").and_then(|h| h.as_u64()).unwrap_or(12_345);
        let contract = ctx.get("contract").and_then(|c| c.as_str()).unwrap_or("contract0").to_string();
        let env = Env {
            block: BlockInfo {
                height,
                time: Timestamp::from_nanos(1_571_797_419_879_305_533),
                chain_id: "verif-1".to_string(),
            },
            // "tx": absent = index 3, null = no transaction info, n = index n
            transaction: match ctx.get("tx") {
                None => Some(TransactionInfo { index: 3 }),
                Some(Value::Null) => None,
                Some(v) => Some(TransactionInfo { index: v.as_u64().unwrap_or(3) as u32 }),
            },
            contract: ContractInfo { address: Addr::unchecked(contract) },
        };
        let info = MessageInfo {
            sender: Addr::unchecked(ctx.get("sender").and_then(|s| s.as_str()).unwrap_or("sender0")),
            funds: coins_of(ctx.get("funds").unwrap_or(&Value::Null)),
        };
        Cx {
            deps: OwnedDeps { storage, api, querier, custom_query_type: PhantomData },
            env,
            info,
        }
    }

    pub fn storage_dump(&self) -> Value {
        dump_storage(&self.deps.storage)
    }
}

pub fn dump_storage(s: &dyn Storage) -> Value {
    let mut m = serde_json::Map::new();
    for (k, v) in s.range(None, None, Order::Ascending) {
        m.insert(String::from_utf8_lossy(&k).to_string(), Value::String(String::from_utf8_lossy(&v).to_string()));
    }
    Value::Object(m)
}

// ---------------------------------------------------------------------------------------------
// observation helpers

pub fn jv<T: Serialize>(t: &T) -> Value {
    match to_json_string(t) {
        Ok(s) => serde_json::from_str(&s).unwrap_or(Value::String(format!("!unparsable:{}", s))),
        Err(e) => Value::String(format!("!ser:{}", e)),
    }
}

/// JSON text of a value as the chain would encode it.
pub fn js<T: Serialize>(t: &T) -> String {
    to_json_string(t).unwrap_or_else(|e| format!("\"!ser:{}\"", e))
}

pub fn decode<T: DeserializeOwned + Serialize + Debug>(bytes: &[u8]) -> Obs {
    guarded(|| match cw::from_json::<T>(bytes) {
        Ok(v) => json!({"ok": true, "json": js(&v), "dbg": format!("{:?}", v)}),
        Err(e) => json!({"ok": false, "err": e.to_string()}),
    })
}

pub fn obs_mut<M: Serialize, E: Display + Debug>(r: Result<Response<M>, E>, storage: Value) -> Obs {
    match r {
        Ok(resp) => json!({"res": "ok", "resp": jv(&resp), "storage": storage}),
        Err(e) => json!({"res": "err", "err": e.to_string(), "err_dbg": format!("{:?}", e), "storage": storage}),
    }
}

pub fn obs_query<E: Display + Debug>(r: Result<Binary, E>, storage: Value) -> Obs {
    match r {
        Ok(b) => json!({"res": "ok", "bin": String::from_utf8_lossy(b.as_slice()).to_string(), "storage": storage}),
        Err(e) => json!({"res": "err", "err": e.to_string(), "err_dbg": format!("{:?}", e), "storage": storage}),
    }
}

pub fn obs_mut_anyhow<M: Serialize>(r: sylvia::anyhow::Result<Response<M>>, storage: Value) -> Obs {
    match r {
        Ok(resp) => json!({"res": "ok", "resp": jv(&resp), "storage": storage}),
        Err(e) => json!({"res": "err", "err": e.to_string(), "err_dbg": format!("{:?}", e), "root": e.root_cause().to_string(), "storage": storage}),
    }
}

pub fn obs_query_anyhow(r: sylvia::anyhow::Result<Binary>, storage: Value) -> Obs {
    match r {
        Ok(b) => json!({"res": "ok", "bin": String::from_utf8_lossy(b.as_slice()).to_string(), "storage": storage}),
        Err(e) => json!({"res": "err", "err": e.to_string(), "err_dbg": format!("{:?}", e), "root": e.root_cause().to_string(), "storage": storage}),
    }
}

pub fn decode_err<E: Display>(e: E) -> Obs {
    json!({"res": "decode_err", "err": e.to_string()})
}

// ---------------------------------------------------------------------------------------------
// echo handlers

fn record<Q: CustomQuery>(
    h: &str,
    storage: &dyn Storage,
    api: &dyn Api,
    querier: QuerierWrapper<Q>,
    env: &Env,
    info: Option<&MessageInfo>,
    args: &[(&str, String)],
) -> String {
    let mut a = String::from("{");
    for (i, (k, v)) in args.iter().enumerate() {
        if i > 0 {
            a.push(',');
        }
        a.push_str(&serde_json::to_string(k).unwrap());
        a.push(':');
        a.push_str(v);
    }
    a.push('}');
    let seen = storage.get(b"probe").map(|v| String::from_utf8_lossy(&v).to_string());
    let probe = MockApi::default().addr_make("probe");
    let api_ok = api.addr_validate(probe.as_str()).is_ok();
    let bal = querier
        .query_balance(PROBE_BALANCE_ADDR, "atom")
        .map(|c| c.amount.to_string())
        .unwrap_or_else(|e| format!("!{}", e));
    let (sender, funds) = match info {
        Some(i) => (
            Value::String(i.sender.to_string()),
            Value::Array(i.funds.iter().map(|c| json!([c.denom, c.amount.to_string()])).collect()),
        ),
        None => (Value::Null, Value::Null),
    };
    format!(
        "{{\"h\":{},\"args\":{},\"sender\":{},\"funds\":{},\"height\":{},\"tx\":{},\"contract\":{},\"seen\":{},\"api_ok\":{},\"bal\":{}}}",
        serde_json::to_string(h).unwrap(),
        a,
        sender,
        funds,
        env.block.height,
        serde_json::to_string(&env.transaction.as_ref().map(|t| t.index)).unwrap(),
        serde_json::to_string(env.contract.address.as_str()).unwrap(),
        serde_json::to_string(&seen).unwrap(),
        api_ok,
        serde_json::to_string(&bal).unwrap(),
    )
}

fn touch(storage: &mut dyn Storage, h: &str) {
    storage.set(format!("touched:{}", h).as_bytes(), b"1");
    let mut log = storage.get(b"log").map(|v| String::from_utf8_lossy(&v).to_string()).unwrap_or_default();
    log.push_str(h);
    log.push(';');
    storage.set(b"log", log.as_bytes());
}

/// Echo handler for instantiate / exec / sudo / migrate / reply style handlers.
pub fn echo_mut<Q: CustomQuery, M>(
    h: &str,
    deps: DepsMut<Q>,
    env: &Env,
    info: Option<&MessageInfo>,
    args: Vec<(&str, String)>,
) -> StdResult<Response<M>> {
    let rec = record(h, deps.storage, deps.api, deps.querier, env, info, &args);
    touch(deps.storage, h);
    if deps.storage.get(b"fail").is_some() {
        return Err(StdError::generic_err(format!("fail:{}", h)));
    }
    Ok(Response::new().add_attribute("echo", rec))
}

/// Echo handler for queries.
pub fn echo_query<Q: CustomQuery>(h: &str, deps: Deps<Q>, env: &Env, args: Vec<(&str, String)>) -> StdResult<EchoResp> {
    let rec = record(h, deps.storage, deps.api, deps.querier, env, None, &args);
    if deps.storage.get(b"fail").is_some() {
        return Err(StdError::generic_err(format!("fail:{}", h)));
    }
    Ok(EchoResp { echo: rec })
}

/// Maps the echo failure to the contract's own error (handlers declared to return it).
pub fn own_err(e: StdError, h: &str) -> ContractError {
    let _ = e;
    ContractError::Handler(h.to_string())
}

/// Extra fields a rich echo adds for reply handlers.
pub fn echo_reply<Q: CustomQuery, M>(
    h: &str,
    ctx: sylvia::ctx::ReplyCtx<Q>,
    args: Vec<(&str, String)>,
) -> StdResult<Response<M>> {
    let mut args = args;
    args.push(("@gas_used", ctx.gas_used.to_string()));
    args.push(("@events", js(&ctx.events)));
    args.push(("@msg_responses", js(&ctx.msg_responses)));
    echo_mut(h, ctx.deps, &ctx.env, None, args)
}

/// Decodes one argument given as JSON text (arguments travel as a JSON array of JSON texts so that
/// numbers beyond 64 bits survive).
pub fn arg<T: DeserializeOwned>(v: &Value) -> T {
    cw::from_json(v.as_str().expect("arg text").as_bytes()).expect("arg decode")
}

pub fn args_of(input: &[u8]) -> Vec<Value> {
    serde_json::from_slice(input).expect("args array")
}

// ---------------------------------------------------------------------------------------------
// remote helpers (C10)

pub fn funds_seq(ctx: &Value) -> Vec<Vec<Coin>> {
    ctx.get("funds_seq").and_then(|s| s.as_array()).map(|a| a.iter().map(coins_of).collect()).unwrap_or_default()
}

pub fn coins_json(cs: &[Coin]) -> Value {
    Value::Array(cs.iter().map(|c| json!([c.denom, c.amount.to_string()])).collect())
}

pub fn obs_wasm(r: StdResult<cw::WasmMsg>) -> Obs {
    match r {
        Err(e) => json!({"res": "err", "err": e.to_string()}),
        Ok(cw::WasmMsg::Execute { contract_addr, msg, funds }) => json!({"res": "ok", "variant": "execute", "contract_addr": contract_addr,
            "funds": coins_json(&funds), "msg": String::from_utf8_lossy(msg.as_slice()).to_string()}),
        Ok(other) => json!({"res": "ok", "variant": "other", "dbg": format!("{:?}", other)}),
    }
}

/// Runs `f` with a querier that records every smart query and answers it with `handler`
/// (the target's real query entry path).
pub fn with_recording_querier<Q, H, F>(handler: H, f: F) -> Obs
where
    Q: CustomQuery + DeserializeOwned,
    H: Fn(&[u8]) -> Result<Binary, String> + 'static,
    F: FnOnce(&QuerierWrapper<Q>) -> Value,
{
    use std::cell::RefCell;
    use std::rc::Rc;
    let seen: Rc<RefCell<Vec<Value>>> = Rc::new(RefCell::new(vec![]));
    let seen2 = seen.clone();
    let mut q: MockQuerier<Q> = MockQuerier::new(&[]);
    q.update_wasm(move |w| match w {
        cw::WasmQuery::Smart { contract_addr, msg } => {
            seen2.borrow_mut().push(json!({"addr": contract_addr, "msg": String::from_utf8_lossy(msg.as_slice()).to_string()}));
            match handler(msg.as_slice()) {
                Ok(b) => cw::SystemResult::Ok(cw::ContractResult::Ok(b)),
                Err(e) => cw::SystemResult::Ok(cw::ContractResult::Err(e)),
            }
        }
        other => {
            seen2.borrow_mut().push(json!({"unexpected": format!("{:?}", other)}));
            cw::SystemResult::Ok(cw::ContractResult::Err("unexpected wasm query".into()))
        }
    });
    let qw: QuerierWrapper<Q> = QuerierWrapper::new(&q);
    let result = guarded(|| f(&qw));
    let s = seen.borrow().clone();
    json!({"seen": s, "result": result})
}

pub fn jres<T: Serialize, E: Display>(r: Result<T, E>) -> Value {
    match r {
        Ok(v) => json!({"ok": jv(&v)}),
        Err(e) => json!({"err": e.to_string()}),
    }
}

/// Echo that returns a rich `Response<Empty>` (two sub-messages with id / payload / gas limit /
/// reply trigger, a second attribute, an event, data).  `flag == 7` additionally adds a
/// `CosmosMsg::Custom(Empty)` message, `flag == 8` a deprecated stargate message.
pub fn echo_rich_empty<Q: CustomQuery>(
    h: &str,
    deps: DepsMut<Q>,
    env: &Env,
    info: Option<&MessageInfo>,
    args: Vec<(&str, String)>,
    flag: u32,
) -> StdResult<Response<Empty>> {
    let base: Response<Empty> = echo_mut(h, deps, env, info, args)?;
    let mut r = base
        .add_submessage(cw::SubMsg {
            id: 11,
            payload: Binary::from(vec![1u8, 2]),
            gas_limit: Some(5),
            reply_on: cw::ReplyOn::Error,
            msg: cw::CosmosMsg::Bank(cw::BankMsg::Send { to_address: "t".into(), amount: vec![Coin { denom: "atom".into(), amount: Uint128::new(1) }] }),
        })
        .add_submessage(cw::SubMsg::reply_always(cw::WasmMsg::Execute { contract_addr: "w".into(), msg: Binary::from(b"{}".to_vec()), funds: vec![] }, 12))
        .add_attribute("k2", "v2")
        .add_event(cw::Event::new("ev").add_attribute("x", "y"))
        .set_data(b"dat".to_vec());
    if flag == 7 {
        r = r.add_message(cw::CosmosMsg::Custom(Empty {}));
    }
    #[cfg(feature = "full")]
    if flag == 8 {
        #[allow(deprecated)]
        let m = cw::CosmosMsg::Stargate { type_url: "/s.T".into(), value: Binary::from(vec![3u8]) };
        r = r.add_message(m);
    }
    Ok(r)
}

// ---------------------------------------------------------------------------------------------
// sub-message builder receivers (C08)

pub fn base_wasm() -> cw::WasmMsg {
    cw::WasmMsg::Execute { contract_addr: "remote".into(), msg: Binary::from(b"{\"m\":1}".to_vec()), funds: vec![Coin { denom: "atom".into(), amount: Uint128::new(3) }] }
}

pub fn base_cosmos() -> cw::CosmosMsg<Empty> {
    cw::CosmosMsg::Bank(cw::BankMsg::Send { to_address: "to".into(), amount: vec![Coin { denom: "btc".into(), amount: Uint128::new(9) }] })
}

/// An existing sub-message with a pre-set id / payload / reply trigger and the gas limit given in extra.
pub fn base_submsg(extra: &Value) -> cw::SubMsg<Empty> {
    cw::SubMsg {
        id: 4242,
        msg: base_wasm().into(),
        payload: Binary::from(vec![9u8, 9, 9]),
        gas_limit: extra.get("gas_limit").and_then(|g| g.as_u64()),
        reply_on: cw::ReplyOn::Never,
    }
}

/// JSON string holding the Debug rendering (for values that are not Serialize).
pub fn jdbg<T: Debug>(t: &T) -> String {
    serde_json::to_string(&format!("{:?}", t)).unwrap()
}

/// serde_json rendering (for schemars schemas etc.)
pub fn sj<T: Serialize>(t: &T) -> Value {
    serde_json::to_value(t).unwrap_or_else(|e| Value::String(format!("!ser:{}", e)))
}

/// Applies the setters listed in `extra["setters"]` (e.g. ["label:L", "admin:a", "funds:2"]) to an
/// instantiate builder, builds (salted when `extra["salt"]` is given) and renders the message.
pub fn obs_inst_builder(b: StdResult<sylvia::builder::instantiate::InstantiateBuilder>, extra: &Value) -> Obs {
    let mut b = match b {
        Ok(b) => b,
        Err(e) => return json!({"res": "err", "err": e.to_string()}),
    };
    if let Some(setters) = extra.get("setters").and_then(|s| s.as_array()) {
        for s in setters {
            let s = s.as_str().unwrap_or("");
            let (what, val) = s.split_once(':').unwrap_or((s, ""));
            b = match what {
                "label" => b.with_label(val),
                "admin" => b.with_admin(val.to_string()),
                "funds" => b.with_funds(vec![Coin { denom: "atom".into(), amount: Uint128::new(val.parse().unwrap_or(0)) }]),
                _ => b,
            };
        }
    }
    #[cfg(feature = "full")]
    let msg = match extra.get("salt").and_then(|s| s.as_str()) {
        Some(salt) => b.build2(Binary::from(salt.as_bytes().to_vec())),
        None => b.build(),
    };
    #[cfg(not(feature = "full"))]
    let msg = b.build();
    match msg {
        cw::WasmMsg::Instantiate { admin, code_id, msg, funds, label } => json!({"res": "ok", "variant": "instantiate", "admin": admin, "code_id": code_id,
            "msg": String::from_utf8_lossy(msg.as_slice()).to_string(), "funds": coins_json(&funds), "label": label, "salt": Value::Null}),
        #[cfg(feature = "full")]
        cw::WasmMsg::Instantiate2 { admin, code_id, label, msg, funds, salt } => json!({"res": "ok", "variant": "instantiate2", "admin": admin, "code_id": code_id,
            "msg": String::from_utf8_lossy(msg.as_slice()).to_string(), "funds": coins_json(&funds), "label": label, "salt": String::from_utf8_lossy(salt.as_slice()).to_string()}),
        other => json!({"res": "ok", "variant": "other", "dbg": format!("{:?}", other)}),
    }
}
