//! User-side types used by corpus programs.
use cosmwasm_schema::cw_serde;
use cosmwasm_std::{CustomMsg, CustomQuery, StdError};

#[cw_serde]
pub struct Inner {
    pub n: u32,
    pub o: Option<String>,
}

#[cw_serde]
pub enum En {
    Unit,
    Tup(u8, String),
    St { f: u32 },
}

#[cw_serde]
pub struct EchoResp {
    pub echo: String,
}

#[cw_serde]
pub struct OtherResp {
    pub other: u32,
}

#[cw_serde]
pub enum MyMsg {
    Ping { n: u32 },
}
impl CustomMsg for MyMsg {}

#[cw_serde]
pub enum MyQuery {
    Q { n: u32 },
}
impl CustomQuery for MyQuery {}

#[derive(Debug, PartialEq)]
pub enum ContractError {
    Std(StdError),
    Handler(String),
}

impl std::fmt::Display for ContractError {
    fn fmt(&self, f: &mut std::fmt::Formatter<'_>) -> std::fmt::Result {
        match self {
            ContractError::Std(e) => write!(f, "ContractError::Std({})", e),
            ContractError::Handler(h) => write!(f, "ContractError::Handler({})", h),
        }
    }
}

impl std::error::Error for ContractError {}

impl From<StdError> for ContractError {
    fn from(e: StdError) -> Self {
        ContractError::Std(e)
    }
}
