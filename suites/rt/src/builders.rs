//! C10 (runtime part): builder state machines — ExecutorBuilder, InstantiateBuilder, Remote admin
//! helpers, BoundQuerier over a recording mock querier — explored breadth-first over call sequences.
use std::cell::RefCell;
use std::marker::PhantomData;
use std::rc::Rc;

use serde_json::{json, Value};
use sylvia::builder::instantiate::InstantiateBuilder;
use sylvia::ctx::{ExecCtx, InstantiateCtx, QueryCtx};
use sylvia::cw_std::testing::{mock_env, MockApi, MockQuerier, MockStorage};
use sylvia::cw_std::{
    from_json, to_json_binary, Addr, Binary, Coin, ContractResult, Empty, OwnedDeps, QuerierWrapper, Response, StdError, StdResult,
    SystemResult, Uint128, WasmMsg, WasmQuery,
};
use sylvia::types::{ContractApi, Remote};

pub mod tiface {
    use sylvia::ctx::{ExecCtx, QueryCtx};
    use sylvia::cw_std::{Response, StdError};

    #[sylvia::interface]
    #[sv::custom(msg = sylvia::cw_std::Empty, query = sylvia::cw_std::Empty)]
    pub trait Tif {
        type Error: From<StdError>;

        #[sv::msg(exec)]
        fn ping(&self, ctx: ExecCtx, n: u32, note: String) -> Result<Response, Self::Error>;

        #[sv::msg(query)]
        fn pong(&self, ctx: QueryCtx, n: u32) -> Result<u32, Self::Error>;
    }
}

pub mod tifa {
    use sylvia::ctx::ExecCtx;
    use sylvia::cw_std::{Response, StdError};

    #[sylvia::interface]
    #[sv::custom(msg = sylvia::cw_std::Empty, query = sylvia::cw_std::Empty)]
    pub trait TifA {
        type Error: From<StdError>;
        type Param: serde::Serialize + serde::de::DeserializeOwned + std::fmt::Debug + Clone + PartialEq + schemars::JsonSchema;
        type Other: Clone;

        #[sv::msg(exec)]
        fn put(&self, ctx: ExecCtx, p: Self::Param) -> Result<Response, Self::Error>;
    }
}

pub struct Tg;

#[sylvia::contract]
#[sv::messages(tiface)]
impl Tg {
    pub const fn new() -> Self {
        Self
    }

    #[sv::msg(instantiate)]
    fn instantiate(&self, _ctx: InstantiateCtx, a: u32, b: String) -> StdResult<Response> {
        Ok(Response::new().add_attribute("a", a.to_string()).add_attribute("b", b))
    }

    #[sv::msg(exec)]
    fn poke(&self, _ctx: ExecCtx, a: u32, s: String) -> StdResult<Response> {
        Ok(Response::new().add_attribute("h", "poke").add_attribute("a", a.to_string()).add_attribute("s", s))
    }

    #[sv::msg(exec)]
    fn prod(&self, _ctx: ExecCtx, a: u32, s: String) -> StdResult<Response> {
        Ok(Response::new().add_attribute("h", "prod").add_attribute("a", a.to_string()).add_attribute("s", s))
    }

    #[sv::msg(query)]
    fn peek(&self, _ctx: QueryCtx, a: u32) -> StdResult<u32> {
        Ok(a.wrapping_add(1))
    }

    #[sv::msg(query)]
    fn peer(&self, _ctx: QueryCtx, a: u32) -> StdResult<u32> {
        Ok(a.wrapping_add(1000))
    }
}

impl tiface::Tif for Tg {
    type Error = StdError;

    fn ping(&self, _ctx: ExecCtx, n: u32, note: String) -> Result<Response, StdError> {
        Ok(Response::new().add_attribute("h", "ping").add_attribute("a", n.to_string()).add_attribute("s", note))
    }

    fn pong(&self, _ctx: QueryCtx, n: u32) -> Result<u32, StdError> {
        Ok(n.wrapping_add(7))
    }
}

pub use gen::Gen;
pub mod gen {
    use std::marker::PhantomData;
    use sylvia::ctx::{ExecCtx, InstantiateCtx};
    use sylvia::cw_std::{Response, StdResult};

    pub struct Gen<T>(PhantomData<T>);
    
    #[sylvia::contract]
    impl<T> Gen<T>
    where
        T: serde::Serialize + serde::de::DeserializeOwned + std::fmt::Debug + Clone + PartialEq + schemars::JsonSchema + 'static,
    {
        pub const fn new() -> Self {
            Self(PhantomData)
        }
    
        #[sv::msg(instantiate)]
        fn instantiate(&self, _ctx: InstantiateCtx, t: T) -> StdResult<Response> {
            Ok(Response::new())
        }
    
        #[sv::msg(exec)]
        fn give(&self, _ctx: ExecCtx, t: T) -> StdResult<Response> {
            Ok(Response::new().add_attribute("t", sylvia::cw_std::to_json_string(&t)?))
        }
    }
}

fn coins(k: usize) -> Vec<Coin> {
    match k {
        0 => vec![],
        1 => vec![Coin { denom: "atom".into(), amount: Uint128::new(1) }],
        _ => vec![Coin { denom: "atom".into(), amount: Uint128::new(2) }, Coin { denom: "btc".into(), amount: Uint128::new(1) }],
    }
}

fn run_exec_on_target(msg: &Binary) -> Result<Vec<(String, String)>, String> {
    // the target's execute entry path: decode the contract-level message, dispatch on the contract
    let m: <Tg as ContractApi>::ContractExec = from_json(msg).map_err(|e| format!("target rejects body: {}", e))?;
    let mut deps: OwnedDeps<MockStorage, MockApi, MockQuerier, Empty> = sylvia::cw_std::testing::mock_dependencies();
    let info = sylvia::cw_std::MessageInfo { sender: Addr::unchecked("s"), funds: vec![] };
    let resp = m.dispatch(&Tg::new(), (deps.as_mut(), mock_env(), info)).map_err(|e| e.to_string())?;
    Ok(resp.attributes.into_iter().map(|a| (a.key, a.value)).collect())
}

pub fn run(tier: &str) -> String {
    let mut viol: Vec<Value> = vec![];
    let mut n_exec = 0u64;
    let mut n_inst = 0u64;
    let mut n_query = 0u64;
    let mut states = std::collections::BTreeSet::new();
    let depth = if tier == "thorough" { 4 } else { 3 };
    // ---- ExecutorBuilder: address x with_funds sequences x method x args, concrete contract and dyn interface
    let addrs = ["target0", "cosmwasm1other"];
    let mut seqs: Vec<Vec<usize>> = vec![vec![]];
    let mut frontier = vec![vec![]];
    for _ in 0..depth {
        let mut next = vec![];
        for s in &frontier {
            for k in 0..3 {
                let mut t: Vec<usize> = s.clone();
                t.push(k);
                next.push(t);
            }
        }
        seqs.extend(next.clone());
        frontier = next;
    }
    for addr in addrs {
        let a = Addr::unchecked(addr);
        for seq in &seqs {
            for (method, arg_a, arg_s) in [("poke", 0u32, ""), ("poke", 4294967295, "x\"y"), ("prod", 5, "z"), ("ping", 9, "n")] {
                for borrowed in [false, true] {
                    let want_funds = seq.last().map(|k| coins(*k)).unwrap_or_default();
                    states.insert(format!("{}|{:?}|{}", addr, seq.last(), method));
                    n_exec += 1;
                    let built: StdResult<WasmMsg> = (|| {
                        if method == "ping" {
                            use tiface::sv::Executor;
                            let r: Remote<dyn tiface::Tif<Error = StdError>> = if borrowed { Remote::borrowed(&a) } else { Remote::new(a.clone()) };
                            let mut b = r.executor();
                            for k in seq {
                                b = b.with_funds(coins(*k));
                            }
                            Ok(b.ping(arg_a, arg_s.to_string())?.build())
                        } else {
                            use sv::Executor;
                            let r: Remote<Tg> = if borrowed { Remote::borrowed(&a) } else { Remote::new(a.clone()) };
                            let mut b = r.executor();
                            for k in seq {
                                b = b.with_funds(coins(*k));
                            }
                            Ok(if method == "poke" { b.poke(arg_a, arg_s.to_string())?.build() } else { b.prod(arg_a, arg_s.to_string())?.build() })
                        }
                    })();
                    let case = json!({"addr": addr, "with_funds_sequence": seq, "method": method, "args": [arg_a, arg_s], "borrowed": borrowed});
                    match built {
                        Err(e) => viol.push(json!({"what": "executor helper failed", "case": case, "err": e.to_string()})),
                        Ok(WasmMsg::Execute { contract_addr, msg, funds }) => {
                            if contract_addr != addr {
                                viol.push(json!({"what": "execute message addressed elsewhere", "case": case, "got": contract_addr}));
                            }
                            if funds != want_funds {
                                viol.push(json!({"what": "funds differ from the last funds set on the builder", "case": case, "got": format!("{:?}", funds), "want": format!("{:?}", want_funds)}));
                            }
                            match run_exec_on_target(&msg) {
                                Err(e) => viol.push(json!({"what": "target does not route the helper's body", "case": case, "err": e, "body": String::from_utf8_lossy(msg.as_slice())})),
                                Ok(attrs) => {
                                    let want = vec![("h".to_string(), method.to_string()), ("a".to_string(), arg_a.to_string()), ("s".to_string(), arg_s.to_string())];
                                    if attrs != want {
                                        viol.push(json!({"what": "target routed the body to another method or with other arguments", "case": case, "got": format!("{:?}", attrs)}));
                                    }
                                }
                            }
                        }
                        Ok(other) => viol.push(json!({"what": "executor helper built a non-execute message", "case": case, "got": format!("{:?}", other)})),
                    }
                }
            }
        }
    }
    // ---- InstantiateBuilder: BFS over setter sequences (label / admin / funds, repeated setters included)
    use sv::TgInstantiateBuilder;
    let ops = ["label:l1", "label:", "admin:adm1", "admin:adm2", "funds:1", "funds:2"];
    let mut iseqs: Vec<Vec<usize>> = vec![vec![]];
    let mut frontier: Vec<Vec<usize>> = vec![vec![]];
    for _ in 0..depth {
        let mut next = vec![];
        for s in &frontier {
            for k in 0..ops.len() {
                let mut t = s.clone();
                t.push(k);
                next.push(t);
            }
        }
        iseqs.extend(next.clone());
        frontier = next;
    }
    for seq in &iseqs {
        for (code_id, ia, ib) in [(1u64, 0u32, ""), (18446744073709551615, 7, "x")] {
            for salted in [None, Some(vec![]), Some(vec![1u8, 2, 3])] {
                n_inst += 1;
                let mut label: Option<String> = None;
                let mut admin: Option<String> = None;
                let mut funds: Vec<Coin> = vec![];
                let mut b = match InstantiateBuilder::tg(code_id, ia, ib.to_string()) {
                    Ok(b) => b,
                    Err(e) => {
                        viol.push(json!({"what": "instantiate builder constructor failed", "err": e.to_string()}));
                        continue;
                    }
                };
                for k in seq {
                    let (what, val) = ops[*k].split_once(':').unwrap();
                    match what {
                        "label" => {
                            b = b.with_label(val);
                            label = Some(val.to_string());
                        }
                        "admin" => {
                            b = b.with_admin(val.to_string());
                            admin = Some(val.to_string());
                        }
                        _ => {
                            let c = coins(val.parse().unwrap());
                            b = b.with_funds(c.clone());
                            funds = c;
                        }
                    }
                }
                states.insert(format!("inst|{:?}|{:?}|{:?}|{}", label, admin, funds.len(), salted.is_some()));
                let msg = match &salted {
                    None => b.build(),
                    Some(s) => b.build2(Binary::from(s.clone())),
                };
                let want_body = format!("{{\"a\":{},\"b\":{}}}", ia, serde_json::to_string(ib).unwrap());
                let case = json!({"setters": seq.iter().map(|k| ops[*k]).collect::<Vec<_>>(), "code_id": code_id, "salt": salted});
                let (g_code, g_msg, g_admin, g_label, g_funds, g_salt) = match msg {
                    WasmMsg::Instantiate { admin, code_id, msg, funds, label } => (code_id, msg, admin, label, funds, None),
                    WasmMsg::Instantiate2 { admin, code_id, label, msg, funds, salt } => (code_id, msg, admin, label, funds, Some(salt)),
                    other => {
                        viol.push(json!({"what": "instantiate builder built another message", "case": case, "got": format!("{:?}", other)}));
                        continue;
                    }
                };
                let mut bad = vec![];
                if g_code != code_id { bad.push("code id"); }
                if g_msg.as_slice() != want_body.as_bytes() { bad.push("arguments"); }
                if g_admin != admin { bad.push("admin"); }
                if g_label != label.clone().unwrap_or_default() { bad.push("label"); }
                if g_funds != funds { bad.push("funds"); }
                if g_salt.as_ref().map(|s| s.to_vec()) != salted { bad.push("salt / salted form"); }
                // the body must be what the target's instantiate message type accepts
                if from_json::<<Tg as ContractApi>::Instantiate>(&g_msg).is_err() { bad.push("body not accepted by the target"); }
                if !bad.is_empty() {
                    viol.push(json!({"what": format!("instantiate message differs in: {}", bad.join(", ")), "case": case,
                        "got": {"code_id": g_code, "msg": String::from_utf8_lossy(g_msg.as_slice()), "admin": g_admin, "label": g_label, "funds": format!("{:?}", g_funds), "salt": g_salt.map(|s| s.to_vec())}}));
                }
            }
        }
    }
    // ---- admin helpers
    let mut n_admin = 0u64;
    for addr in ["", "c1", "cosmwasm1zzz"] {
        let a = Addr::unchecked(addr);
        for borrowed in [false, true] {
            let r: Remote<Tg> = if borrowed { Remote::borrowed(&a) } else { Remote::new(a.clone()) };
            for adm in ["", "newadm"] {
                n_admin += 1;
                match r.update_admin(adm) {
                    WasmMsg::UpdateAdmin { contract_addr, admin } if contract_addr == addr && admin == adm => {}
                    other => viol.push(json!({"what": "update_admin builds a wrong message", "addr": addr, "admin": adm, "got": format!("{:?}", other)})),
                }
            }
            n_admin += 1;
            match r.clear_admin() {
                WasmMsg::ClearAdmin { contract_addr } if contract_addr == addr => {}
                other => viol.push(json!({"what": "clear_admin builds a wrong message", "addr": addr, "got": format!("{:?}", other)})),
            }
        }
    }
    // ---- query helpers over a recording mock querier that answers with the target's real query path
    for addr in addrs {
        for (method, arg) in [("peek", 0u32), ("peek", 41), ("peer", 41), ("pong", 41), ("pong", 4294967295)] {
            for borrowed in [false, true] {
                n_query += 1;
                let seen: Rc<RefCell<Vec<(String, Vec<u8>)>>> = Rc::new(RefCell::new(vec![]));
                let seen2 = seen.clone();
                let mut q: MockQuerier<Empty> = MockQuerier::new(&[]);
                q.update_wasm(move |w| match w {
                    WasmQuery::Smart { contract_addr, msg } => {
                        seen2.borrow_mut().push((contract_addr.clone(), msg.to_vec()));
                        let parsed: Result<<Tg as ContractApi>::ContractQuery, _> = from_json(msg);
                        match parsed {
                            Err(e) => SystemResult::Ok(ContractResult::Err(format!("target rejects query body: {}", e))),
                            Ok(m) => {
                                let deps: OwnedDeps<MockStorage, MockApi, MockQuerier, Empty> = sylvia::cw_std::testing::mock_dependencies();
                                match m.dispatch(&Tg::new(), (deps.as_ref(), mock_env())) {
                                    Ok(b) => SystemResult::Ok(ContractResult::Ok(b)),
                                    Err(e) => SystemResult::Ok(ContractResult::Err(e.to_string())),
                                }
                            }
                        }
                    }
                    _ => SystemResult::Ok(ContractResult::Err("unexpected wasm query".into())),
                });
                let qw: QuerierWrapper<Empty> = QuerierWrapper::new(&q);
                let a = Addr::unchecked(addr);
                let got: StdResult<u32> = if method == "pong" {
                    use tiface::sv::Querier;
                    let r: Remote<dyn tiface::Tif<Error = StdError>> = if borrowed { Remote::borrowed(&a) } else { Remote::new(a.clone()) };
                    let bq = r.querier(&qw);
                    bq.pong(arg)
                } else {
                    use sv::Querier;
                    let r: Remote<Tg> = if borrowed { Remote::borrowed(&a) } else { Remote::new(a.clone()) };
                    let bq = r.querier(&qw);
                    if method == "peek" { bq.peek(arg) } else { bq.peer(arg) }
                };
                let want = match method { "peek" => arg.wrapping_add(1), "peer" => arg.wrapping_add(1000), _ => arg.wrapping_add(7) };
                let case = json!({"addr": addr, "method": method, "arg": arg, "borrowed": borrowed});
                let rec = seen.borrow();
                if rec.len() != 1 || rec[0].0 != addr {
                    viol.push(json!({"what": "query helper did not issue exactly one smart query to the handle's address", "case": case, "seen": rec.iter().map(|r| r.0.clone()).collect::<Vec<_>>()}));
                }
                match got {
                    Ok(v) if v == want => {}
                    other => viol.push(json!({"what": "query helper returned a different value than the target's handler", "case": case, "got": format!("{:?}", other), "want": want,
                        "body": rec.get(0).map(|r| String::from_utf8_lossy(&r.1).to_string())})),
                }
            }
        }
    }
    let _ = to_json_binary(&1u8);
    json!({"suite": "builders", "executor_cases": n_exec, "instantiate_cases": n_inst, "admin_cases": n_admin, "query_cases": n_query,
        "builder_states": states.len(), "depth": depth, "violations": viol.iter().take(40).collect::<Vec<_>>(), "n_violations": viol.len(),
        "sample": {"addr": "target0", "with_funds_sequence": [1, 2], "method": "poke", "args": [0, ""], "expect": "WasmMsg::Execute{contract_addr:target0, funds: last set, msg routes to poke}"}}).to_string()
}
