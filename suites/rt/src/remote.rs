//! C20: Remote<T> encoding is `{"addr":<string>}` for every T, owned or borrowed; schema independent of T.
use cw_storage_plus::Item;
use schemars::schema_for;
use serde_json::{json, Value};
use sylvia::cw_std::testing::MockStorage;
use sylvia::cw_std::{from_json, to_json_string, Addr, Empty, StdError};
use sylvia::types::Remote;

use crate::builders::{tifa, tiface, Gen, Tg};

fn addrs() -> Vec<String> {
    vec![
        "".to_string(),
        "a".to_string(),
        "cosmwasm1fsgzj6t7udv8zhf6zj32mkqhcjcpv52yph5qsdcl0qt94jgdckqs2g053y".to_string(),
        "q\"uo\\te/ß€ \u{1F600}".to_string(),
        "new\nline\ttab".to_string(),
        // case must be preserved: addresses are opaque strings to the handle
        "Owner".to_string(),
        "COSMWASM1FSGZJ6T7UDV8ZHF6ZJ32MKQHCJCPV52YPH5QSDCL0QT94JGDCKQS2G053Y".to_string(),
        "mIxEd \u{c4}\u{df}\u{3a3}".to_string(),
        " lead and trail ".to_string(),
        "x".repeat(4096),
    ]
}

struct Acc {
    n: u64,
    nontrivial: u64,
    viol: Vec<Value>,
    jsons: std::collections::BTreeSet<String>,
    schemas: std::collections::BTreeMap<String, String>,
}

fn one<T: ?Sized + 'static>(tname: &str, acc: &mut Acc)
where
    for<'a> Remote<'a, T>: serde::Serialize + serde::de::DeserializeOwned + schemars::JsonSchema,
{
    for a in addrs() {
        let addr = Addr::unchecked(a.clone());
        let expected = format!("{{\"addr\":{}}}", to_json_string(&a).unwrap());
        for mode in ["owned", "borrowed"] {
            let r: Remote<T> = if mode == "owned" { Remote::new(addr.clone()) } else { Remote::borrowed(&addr) };
            acc.n += 1;
            if !a.is_empty() {
                acc.nontrivial += 1;
            }
            let got = to_json_string(&r).unwrap_or_else(|e| format!("!{}", e));
            acc.jsons.insert(format!("{}:{}", a.len(), got.len()));
            if got != expected {
                acc.viol.push(json!({"what": "encoding differs", "type": tname, "mode": mode, "addr": a, "got": got, "want": expected}));
                continue;
            }
            match from_json::<Remote<'static, T>>(expected.as_bytes()) {
                Err(e) => acc.viol.push(json!({"what": "own encoding does not decode", "type": tname, "mode": mode, "addr": a, "err": e.to_string()})),
                Ok(back) => {
                    if AsRef::<Addr>::as_ref(&back) != &addr {
                        acc.viol.push(json!({"what": "decoded handle points elsewhere", "type": tname, "addr": a, "got": AsRef::<Addr>::as_ref(&back).to_string()}));
                    }
                    if AsRef::<Addr>::as_ref(&back) != AsRef::<Addr>::as_ref(&r) {
                        acc.viol.push(json!({"what": "round trip not equal", "type": tname, "addr": a}));
                    }
                }
            }
            // with surrounding whitespace and unknown extra member: serde default is to ignore unknown members
            // (not part of the property; only recorded)
            // storage: written under T, read back under Remote<()>
            let mut st = MockStorage::new();
            Item::<Remote<T>>::new("r").save(&mut st, &r).unwrap();
            match Item::<Remote<()>>::new("r").load(&st) {
                Ok(other) => {
                    if AsRef::<Addr>::as_ref(&other) != &addr {
                        acc.viol.push(json!({"what": "handle stored under one type parameter loads with another address under Remote<()>", "type": tname, "addr": a}));
                    }
                }
                Err(e) => acc.viol.push(json!({"what": "handle stored under one type parameter does not load under Remote<()>", "type": tname, "addr": a, "err": e.to_string()})),
            }
            let raw = sylvia::cw_std::Storage::get(&st, b"r").unwrap();
            if raw != expected.as_bytes() {
                acc.viol.push(json!({"what": "stored bytes differ from the documented encoding", "type": tname, "addr": a, "got": String::from_utf8_lossy(&raw)}));
            }
        }
    }
    let schema = schema_for!(Remote<'static, T>);
    acc.schemas.insert(tname.to_string(), serde_json::to_string(&schema).unwrap());
    let name = <Remote<'static, T> as schemars::JsonSchema>::schema_name();
    if name != "Remote" {
        acc.viol.push(json!({"what": "schema name depends on the type parameter", "type": tname, "name": name}));
    }
}

pub fn run(_tier: &str) -> String {
    let mut acc = Acc { n: 0, nontrivial: 0, viol: vec![], jsons: Default::default(), schemas: Default::default() };
    one::<Tg>("Tg", &mut acc);
    one::<Gen<u32>>("Gen<u32>", &mut acc);
    one::<Gen<String>>("Gen<String>", &mut acc);
    one::<dyn tiface::Tif<Error = StdError>>("dyn Tif<Error=StdError>", &mut acc);
    one::<dyn tiface::Tif<Error = ()>>("dyn Tif<Error=()>", &mut acc);
    one::<dyn tifa::TifA<Error = StdError, Param = Empty, Other = u64>>("dyn TifA<Error=StdError,Param=Empty,Other=u64>", &mut acc);
    one::<dyn tifa::TifA<Error = (), Param = String, Other = ()>>("dyn TifA<Error=(),Param=String,Other=()>", &mut acc);
    one::<()>("()", &mut acc);
    one::<str>("str", &mut acc);
    one::<[u8]>("[u8]", &mut acc);
    // "the same handle" does not depend on owning or borrowing the address: owned, borrowed and decoded handles to one address are equal
    for a in addrs() {
        let addr = Addr::unchecked(a.clone());
        let owned: Remote<()> = Remote::new(addr.clone());
        let borrowed: Remote<()> = Remote::borrowed(&addr);
        let decoded: Remote<'static, ()> = from_json(to_json_string(&borrowed).unwrap().as_bytes()).unwrap();
        acc.n += 1;
        if !(owned == borrowed && borrowed == owned && decoded == borrowed && borrowed == decoded && decoded == owned) {
            acc.viol.push(json!({"what": "owned / borrowed / decoded handles to one address compare unequal", "type": "()", "addr": a}));
        }
        let other: Remote<()> = Remote::new(Addr::unchecked(format!("{}x", a)));
        if other == owned || other == borrowed {
            acc.viol.push(json!({"what": "handles to different addresses compare equal", "type": "()", "addr": a}));
        }
    }
    // the handle type a contract names through its generated accessor can borrow an address that lives only for a while
    {
        use sylvia::types::ContractApi;
        let local = Addr::unchecked("short-lived");
        let via_alias = <Tg as ContractApi>::Remote::borrowed(&local);
        if to_json_string(&via_alias).unwrap() != "{\"addr\":\"short-lived\"}" {
            acc.viol.push(json!({"what": "handle named through ContractApi::Remote encodes differently", "type": "Tg", "addr": "short-lived"}));
        }
    }
    // several handles with different parameters inside one schema must share one definition named `Remote`
    #[derive(schemars::JsonSchema)]
    #[allow(dead_code)]
    struct Holder {
        a: Remote<'static, Tg>,
        b: Remote<'static, dyn tiface::Tif<Error = StdError>>,
        c: Remote<'static, ()>,
        d: Remote<'static, Gen<u32>>,
        e: Option<Remote<'static, dyn tifa::TifA<Error = (), Param = String, Other = ()>>>,
    }
    let holder = serde_json::to_value(schema_for!(Holder)).unwrap();
    let defs: Vec<String> = holder.get("definitions").and_then(|d| d.as_object()).map(|o| o.keys().filter(|k| k.starts_with("Remote")).cloned().collect()).unwrap_or_default();
    if defs != vec!["Remote".to_string()] {
        acc.viol.push(json!({"what": "a schema holding handles with different type parameters gets several Remote definitions", "definitions": defs}));
    }
    let ids: std::collections::BTreeSet<String> = [
        <Remote<'static, Tg> as schemars::JsonSchema>::schema_id().to_string(),
        <Remote<'static, ()> as schemars::JsonSchema>::schema_id().to_string(),
        <Remote<'static, str> as schemars::JsonSchema>::schema_id().to_string(),
        <Remote<'static, dyn tiface::Tif<Error = StdError>> as schemars::JsonSchema>::schema_id().to_string(),
        <Remote<'static, Gen<String>> as schemars::JsonSchema>::schema_id().to_string(),
    ].into_iter().collect();
    if ids.len() != 1 {
        acc.viol.push(json!({"what": "schema id depends on the type parameter", "ids": ids}));
    }
    let distinct: std::collections::BTreeSet<&String> = acc.schemas.values().collect();
    if distinct.len() != 1 {
        acc.viol.push(json!({"what": "schema depends on the type parameter", "schemas": acc.schemas}));
    }
    // cross-type decode of one document
    let doc = br#"{"addr":"abc"}"#;
    let a: Remote<Tg> = from_json(doc).unwrap();
    let b: Remote<dyn tiface::Tif<Error = StdError>> = from_json(doc).unwrap();
    if a.as_ref() != b.as_ref() {
        acc.viol.push(json!({"what": "one document decodes to different addresses under different parameters"}));
    }
    json!({"suite": "remote", "cases": acc.n, "nontrivial": acc.nontrivial, "types": acc.schemas.keys().collect::<Vec<_>>(), "addresses": addrs().len(),
        "distinct_schemas": distinct.len(), "outcomes": acc.jsons.len(), "violations": acc.viol,
        "sample": {"type": "dyn Tif<Error=StdError>", "mode": "borrowed", "addr": "q\"uo\\te/ß€ 😀", "encoding": to_json_string(&Remote::<()>::new(Addr::unchecked("q\"uo\\te/ß€ \u{1F600}"))).unwrap()}}).to_string()
}
