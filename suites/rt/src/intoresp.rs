//! C11 (runtime part): every small `Response<Empty>` through `IntoResponse::<MyMsg>::into_response`.
use serde_json::{json, Value};
use sylvia::cw_std::{to_json_string, Attribute, BankMsg, Binary, Coin, CosmosMsg, Empty, Event, ReplyOn, Response, SubMsg, Uint128, WasmMsg};
#[cfg(feature = "f_cw20")]
use sylvia::cw_std::AnyMsg;
#[cfg(feature = "f_staking")]
use sylvia::cw_std::{DistributionMsg, StakingMsg};
#[cfg(feature = "f_stargate")]
use sylvia::cw_std::{GovMsg, IbcMsg, IbcTimeout, Timestamp, VoteOption};
use sylvia::into_response::IntoResponse;

#[derive(serde::Serialize, serde::Deserialize, Clone, Debug, PartialEq, schemars::JsonSchema)]
pub struct MyMsg {
    pub x: u32,
}
impl sylvia::cw_std::CustomMsg for MyMsg {}

fn coin(n: u128) -> Coin {
    Coin { denom: "atom".into(), amount: Uint128::new(n) }
}

pub fn msg_alphabet() -> Vec<(&'static str, CosmosMsg<Empty>)> {
    // the variants that exist depend on the framework's cargo features; the suite is built once per explored feature subset
    #[allow(deprecated, unused_mut)]
    let mut v = vec![
        ("wasm_execute", CosmosMsg::Wasm(WasmMsg::Execute { contract_addr: "c".into(), msg: Binary::from(b"{}".to_vec()), funds: vec![coin(1)] })),
        ("bank_send", CosmosMsg::Bank(BankMsg::Send { to_address: "t".into(), amount: vec![coin(2)] })),
        ("custom_empty", CosmosMsg::Custom(Empty {})),
        ("wasm_instantiate", CosmosMsg::Wasm(WasmMsg::Instantiate { admin: Some("adm".into()), code_id: 9, msg: Binary::from(b"{}".to_vec()), funds: vec![], label: "l".into() })),
    ];
    #[cfg(feature = "f_staking")]
    {
        v.push(("staking_delegate", CosmosMsg::Staking(StakingMsg::Delegate { validator: "v".into(), amount: coin(3) })));
        v.push(("distribution_withdraw", CosmosMsg::Distribution(DistributionMsg::SetWithdrawAddress { address: "w".into() })));
    }
    #[cfg(feature = "f_stargate")]
    #[allow(deprecated)]
    {
        v.push(("ibc_transfer", CosmosMsg::Ibc(IbcMsg::Transfer { channel_id: "ch".into(), to_address: "r".into(), amount: coin(4), timeout: IbcTimeout::with_timestamp(Timestamp::from_nanos(5)), memo: None })));
        v.push(("gov_vote", CosmosMsg::Gov(GovMsg::Vote { proposal_id: 7, option: VoteOption::Yes })));
        v.push(("stargate", CosmosMsg::Stargate { type_url: "/s.T".into(), value: Binary::from(vec![3u8]) }));
    }
    #[cfg(feature = "f_cw20")]
    v.push(("any", CosmosMsg::Any(AnyMsg { type_url: "/a.B".into(), value: Binary::from(vec![1u8, 2]) })));
    v
}

fn submsgs(full: bool) -> Vec<(String, SubMsg<Empty>)> {
    let mut out = vec![];
    for (name, m) in msg_alphabet() {
        let ids: &[u64] = if full { &[0, 9] } else { &[9] };
        for id in ids {
            for payload in [Binary::default(), Binary::from(vec![0xffu8, 0x00])] {
                for gas in [None, Some(77u64)] {
                    for ro in [ReplyOn::Never, ReplyOn::Always, ReplyOn::Success, ReplyOn::Error] {
                        if !full && !(payload.is_empty() == gas.is_none()) {
                            continue;
                        }
                        out.push((
                            format!("{}:{}:{}:{:?}:{:?}", name, id, payload.len(), gas, ro),
                            SubMsg { id: *id, msg: m.clone(), gas_limit: gas, reply_on: ro.clone(), payload: payload.clone() },
                        ));
                    }
                }
            }
        }
    }
    out
}

fn check(resp: Response<Empty>, viol: &mut Vec<Value>, stats: &mut (u64, u64, u64, std::collections::BTreeSet<String>)) {
    let has_custom = resp.messages.iter().any(|m| matches!(m.msg, CosmosMsg::Custom(_)));
    let before = to_json_string(&resp).unwrap();
    let orig = resp.clone();
    let r: Result<Response<MyMsg>, _> = std::panic::catch_unwind(move || IntoResponse::<MyMsg>::into_response(resp)).unwrap_or_else(|_| {
        Err(sylvia::cw_std::StdError::generic_err("PANIC"))
    });
    stats.0 += 1;
    match r {
        Err(e) => {
            stats.1 += 1;
            stats.3.insert(format!("err:{}", e.to_string().chars().take(30).collect::<String>()));
            if !has_custom {
                if viol.len() < 40 {
                    viol.push(json!({"what": "conversion fails although the response has no custom-typed message", "error": e.to_string(), "response": serde_json::from_str::<Value>(&before).unwrap(),
                        "msg_kinds": orig.messages.iter().map(|m| kind_of(&m.msg)).collect::<Vec<_>>()}));
                }
                stats.2 += 1;
            }
        }
        Ok(out) => {
            stats.3.insert("ok".into());
            let after = to_json_string(&out).unwrap();
            let mut bad = None;
            if has_custom {
                bad = Some("conversion succeeds although the response carries a custom-typed message");
            } else if after != before {
                bad = Some("converted response differs from the original (JSON)");
            } else if out.messages.len() != orig.messages.len()
                || out.messages.iter().zip(orig.messages.iter()).any(|(a, b)| a.id != b.id || a.payload != b.payload || a.gas_limit != b.gas_limit || a.reply_on != b.reply_on)
                || out.attributes != orig.attributes
                || out.events != orig.events
                || out.data != orig.data
            {
                bad = Some("converted response differs from the original (fields)");
            }
            if let Some(b) = bad {
                stats.2 += 1;
                if viol.len() < 40 {
                    viol.push(json!({"what": b, "response": serde_json::from_str::<Value>(&before).unwrap(), "converted": serde_json::from_str::<Value>(&after).unwrap(),
                        "msg_kinds": orig.messages.iter().map(|m| kind_of(&m.msg)).collect::<Vec<_>>()}));
                }
            }
        }
    }
}

#[allow(deprecated)]
fn kind_of(m: &CosmosMsg<Empty>) -> &'static str {
    match m {
        CosmosMsg::Bank(_) => "bank",
        CosmosMsg::Custom(_) => "custom",
        #[cfg(feature = "f_staking")]
        CosmosMsg::Staking(_) => "staking",
        #[cfg(feature = "f_staking")]
        CosmosMsg::Distribution(_) => "distribution",
        #[cfg(feature = "f_stargate")]
        CosmosMsg::Stargate { .. } => "stargate",
        #[cfg(feature = "f_cw20")]
        CosmosMsg::Any(_) => "any",
        #[cfg(feature = "f_stargate")]
        CosmosMsg::Ibc(_) => "ibc",
        CosmosMsg::Wasm(_) => "wasm",
        #[cfg(feature = "f_stargate")]
        CosmosMsg::Gov(_) => "gov",
        _ => "other",
    }
}

pub fn run(tier: &str) -> String {
    let full = tier == "thorough";
    let firsts = submsgs(true);
    let seconds = if full { submsgs(true) } else { msg_alphabet().into_iter().map(|(n, m)| (n.to_string(), SubMsg { id: 3, msg: m, gas_limit: Some(1), reply_on: ReplyOn::Error, payload: Binary::from(vec![7u8]) })).collect() };
    let attrs: Vec<Vec<Attribute>> = vec![vec![], vec![Attribute::new("k", "v")], vec![Attribute::new("k", "v"), Attribute::new("k", "w")]];
    let events: Vec<Vec<Event>> = vec![vec![], vec![Event::new("e1").add_attribute("a", "b")], vec![Event::new("e1").add_attribute("a", "b"), Event::new("e2")]];
    let datas: Vec<Option<Binary>> = vec![None, Some(Binary::from(vec![1u8, 2, 3]))];
    let mut viol = vec![];
    let mut stats = (0u64, 0u64, 0u64, std::collections::BTreeSet::new());
    let mut msg_lists: Vec<Vec<SubMsg<Empty>>> = vec![vec![]];
    for (_, a) in &firsts {
        msg_lists.push(vec![a.clone()]);
    }
    for (_, a) in &firsts {
        for (_, b) in &seconds {
            msg_lists.push(vec![a.clone(), b.clone()]);
            if !full {
                msg_lists.push(vec![b.clone(), a.clone()]);
            }
        }
    }
    let n_lists = msg_lists.len();
    let mut nontrivial = 0u64;
    for ms in msg_lists {
        for at in &attrs {
            for ev in &events {
                for d in &datas {
                    let mut r = Response::<Empty>::new().add_submessages(ms.clone()).add_attributes(at.clone()).add_events(ev.clone());
                    r.data = d.clone();
                    if !ms.is_empty() || !at.is_empty() || !ev.is_empty() || d.is_some() {
                        nontrivial += 1;
                    }
                    check(r, &mut viol, &mut stats);
                }
            }
        }
    }
    json!({"suite": "intoresp", "responses": stats.0, "errors": stats.1, "bad": stats.2, "message_lists": n_lists, "nontrivial": nontrivial,
        "outcomes": stats.3.iter().collect::<Vec<_>>(), "submsg_alphabet": firsts.len(), "msg_kinds": msg_alphabet().iter().map(|x| x.0).collect::<Vec<_>>(),
        "violations": viol,
        "features": [cfg!(feature = "f_staking"), cfg!(feature = "f_stargate"), cfg!(feature = "f_cw20")],
        "sample": {"messages": [firsts[5].0.clone(), seconds[1].0.clone()], "attributes": 1, "events": 2, "data": "AQID"}}).to_string()
}
