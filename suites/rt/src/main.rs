//! E4 — runtime explorers with in-Rust oracles (static sources; only `sylvia` comes from /repo).
#![allow(clippy::all, deprecated)]
// one cargo feature per suite: when the tree breaks the API one suite uses, the others still build (vlib/e4.py)
#[cfg(feature = "s_merge")]
mod merge;
#[cfg(feature = "s_intoresp")]
mod intoresp;
#[cfg(feature = "s_remote")]
mod remote;
#[cfg(feature = "s_builders")]
mod builders;
#[cfg(feature = "s_history")]
mod history;
#[cfg(feature = "s_history")]
mod history_progs;

fn main() {
    std::panic::set_hook(Box::new(|_| {}));
    let args: Vec<String> = std::env::args().collect();
    let tier = args.get(2).map(|s| s.as_str()).unwrap_or("quick");
    let out = match args.get(1).map(|s| s.as_str()) {
        #[cfg(feature = "s_merge")]
        Some("merge") => merge::run(tier),
        #[cfg(feature = "s_intoresp")]
        Some("intoresp") => intoresp::run(tier),
        #[cfg(feature = "s_remote")]
        Some("remote") => remote::run(tier),
        #[cfg(feature = "s_builders")]
        Some("builders") => builders::run(tier),
        #[cfg(feature = "s_history")]
        Some("history") => history::run(tier),
        _ => {
            eprintln!("usage: rt merge|intoresp|remote|builders quick|thorough");
            std::process::exit(2);
        }
    };
    println!("{}", out);
}
