//! E4 — runtime explorers with in-Rust oracles (static sources; only `sylvia` comes from /repo).
#![allow(clippy::all, deprecated)]
mod merge;
mod intoresp;
mod remote;
mod builders;
mod history;
mod history_progs;

fn main() {
    std::panic::set_hook(Box::new(|_| {}));
    let args: Vec<String> = std::env::args().collect();
    let tier = args.get(2).map(|s| s.as_str()).unwrap_or("quick");
    let out = match args.get(1).map(|s| s.as_str()) {
        Some("merge") => merge::run(tier),
        Some("intoresp") => intoresp::run(tier),
        Some("remote") => remote::run(tier),
        Some("builders") => builders::run(tier),
        Some("history") => history::run(tier),
        _ => {
            eprintln!("usage: rt merge|intoresp|remote|builders quick|thorough");
            std::process::exit(2);
        }
    };
    println!("{}", out);
}
