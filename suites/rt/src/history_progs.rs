//! Stateful programs explored by the history explorer (C12) and their operation alphabets.
#![allow(clippy::all)]
use sylvia::cw_std::{coins, Addr, Coin};

use crate::history::*;

// ---------------------------------------------------------------------------------------------
// interface shared by the programs

pub mod tally {
    use sylvia::ctx::{ExecCtx, QueryCtx, SudoCtx};
    use sylvia::cw_std::{Response, StdError};

    #[sylvia::interface]
    #[sv::custom(msg = sylvia::cw_std::Empty, query = sylvia::cw_std::Empty)]
    pub trait Tally {
        type Error: From<StdError>;

        #[sv::msg(exec)]
        fn tally_add(&self, ctx: ExecCtx, n: u32) -> Result<Response, Self::Error>;

        #[sv::msg(query)]
        fn tally(&self, ctx: QueryCtx) -> Result<u32, Self::Error>;

        #[sv::msg(sudo)]
        fn tally_reset(&self, ctx: SudoCtx, to: u32) -> Result<Response, Self::Error>;
    }
}

// ---------------------------------------------------------------------------------------------
// P1: plain contract, StdError

pub mod cnt {
    use cw_storage_plus::Item;
    use sylvia::ctx::{ExecCtx, InstantiateCtx, MigrateCtx, QueryCtx, SudoCtx};
    use sylvia::cw_std::{Response, StdError, StdResult};

    pub struct Cnt {
        pub count: Item<u32>,
        pub paid: Item<String>,
    }

    #[sylvia::contract]
    impl Cnt {
        pub const fn new() -> Self {
            Self { count: Item::new("count"), paid: Item::new("paid") }
        }

        #[sv::msg(instantiate)]
        fn instantiate(&self, ctx: InstantiateCtx, v: u32) -> StdResult<Response> {
            if v == 99 {
                return Err(StdError::generic_err("instantiate refused"));
            }
            self.count.save(ctx.deps.storage, &v)?;
            self.paid.save(ctx.deps.storage, &format!("{:?}", ctx.info.funds))?;
            Ok(Response::new().add_attribute("init", v.to_string()).set_data(b"init-data".to_vec()))
        }

        #[sv::msg(exec)]
        fn add(&self, ctx: ExecCtx, n: u32) -> StdResult<Response> {
            if n == 13 {
                return Err(StdError::generic_err("unlucky"));
            }
            let c = self.count.load(ctx.deps.storage)? + n;
            self.count.save(ctx.deps.storage, &c)?;
            self.paid.save(ctx.deps.storage, &format!("{}:{:?}", ctx.info.sender, ctx.info.funds))?;
            Ok(Response::new().add_attribute("count", c.to_string()).set_data(c.to_be_bytes().to_vec()))
        }

        #[sv::msg(exec)]
        fn clear(&self, ctx: ExecCtx) -> StdResult<Response> {
            self.count.save(ctx.deps.storage, &0)?;
            Ok(Response::new())
        }

        #[sv::msg(query)]
        fn count(&self, ctx: QueryCtx) -> StdResult<u32> {
            self.count.load(ctx.deps.storage)
        }

        #[sv::msg(query)]
        fn count_plus(&self, ctx: QueryCtx, n: u32) -> StdResult<u32> {
            if n == 13 {
                return Err(StdError::generic_err("unlucky query"));
            }
            Ok(self.count.load(ctx.deps.storage)? + n)
        }

        #[sv::msg(sudo)]
        fn bump(&self, ctx: SudoCtx, by: u32) -> StdResult<Response> {
            if by == 13 {
                return Err(StdError::generic_err("unlucky sudo"));
            }
            let c = self.count.load(ctx.deps.storage)? + by;
            self.count.save(ctx.deps.storage, &c)?;
            Ok(Response::new().add_attribute("bumped", c.to_string()))
        }

        #[sv::msg(migrate)]
        fn migrate(&self, ctx: MigrateCtx, to: u32) -> StdResult<Response> {
            if to == 13 {
                return Err(StdError::generic_err("unlucky migrate"));
            }
            self.count.save(ctx.deps.storage, &to)?;
            Ok(Response::new().add_attribute("migrated", to.to_string()).set_data(b"mig".to_vec()))
        }
    }
}

// ---------------------------------------------------------------------------------------------
// P2: contract with an interface and its own error type

pub mod led {
    use cw_storage_plus::Item;
    use sylvia::ctx::{ExecCtx, InstantiateCtx, MigrateCtx, QueryCtx, SudoCtx};
    use sylvia::cw_std::{Response, StdError};

    #[derive(Debug, PartialEq)]
    pub enum LedError {
        Std(StdError),
        Refused { code: u32 },
    }
    impl std::fmt::Display for LedError {
        fn fmt(&self, f: &mut std::fmt::Formatter<'_>) -> std::fmt::Result {
            write!(f, "{:?}", self)
        }
    }
    impl std::error::Error for LedError {}
    impl From<StdError> for LedError {
        fn from(e: StdError) -> Self {
            LedError::Std(e)
        }
    }

    pub struct Led {
        pub total: Item<u32>,
    }

    #[sylvia::contract]
    #[sv::error(LedError)]
    #[sv::messages(crate::history_progs::tally as Tally)]
    impl Led {
        pub const fn new() -> Self {
            Self { total: Item::new("total") }
        }

        #[sv::msg(instantiate)]
        fn instantiate(&self, ctx: InstantiateCtx, start: u32, note: String) -> Result<Response, LedError> {
            if start == 99 {
                return Err(LedError::Refused { code: 99 });
            }
            self.total.save(ctx.deps.storage, &start)?;
            Ok(Response::new().add_attribute("note", note))
        }

        #[sv::msg(exec)]
        fn spend(&self, ctx: ExecCtx, n: u32) -> Result<Response, LedError> {
            let t = self.total.load(ctx.deps.storage)?;
            if n > t {
                return Err(LedError::Refused { code: n });
            }
            self.total.save(ctx.deps.storage, &(t - n))?;
            Ok(Response::new().add_attribute("left", (t - n).to_string()))
        }

        #[sv::msg(query)]
        fn left(&self, ctx: QueryCtx) -> Result<u32, LedError> {
            Ok(self.total.load(ctx.deps.storage)?)
        }

        #[sv::msg(sudo)]
        fn wipe(&self, ctx: SudoCtx) -> Result<Response, LedError> {
            self.total.save(ctx.deps.storage, &0)?;
            Ok(Response::new())
        }

        #[sv::msg(migrate)]
        fn migrate(&self, ctx: MigrateCtx, add: u32) -> Result<Response, LedError> {
            if add == 13 {
                return Err(LedError::Refused { code: 13 });
            }
            let t = self.total.load(ctx.deps.storage)? + add;
            self.total.save(ctx.deps.storage, &t)?;
            Ok(Response::new())
        }
    }

    impl crate::history_progs::tally::Tally for Led {
        type Error = LedError;

        fn tally_add(&self, ctx: ExecCtx, n: u32) -> Result<Response, LedError> {
            if n == 13 {
                return Err(LedError::Refused { code: 13 });
            }
            let t = self.total.load(ctx.deps.storage)? + n;
            self.total.save(ctx.deps.storage, &t)?;
            Ok(Response::new().add_attribute("tally", t.to_string()).set_data(vec![t as u8]))
        }

        fn tally(&self, ctx: QueryCtx) -> Result<u32, LedError> {
            Ok(self.total.load(ctx.deps.storage)?)
        }

        fn tally_reset(&self, ctx: SudoCtx, to: u32) -> Result<Response, LedError> {
            if to == 13 {
                return Err(LedError::Refused { code: 13 });
            }
            self.total.save(ctx.deps.storage, &to)?;
            Ok(Response::new().add_attribute("reset", to.to_string()))
        }
    }
}

// ---------------------------------------------------------------------------------------------
// P3: generic contract, instantiated at u32

pub mod bag {
    use cw_storage_plus::Item;
    use sylvia::ctx::{ExecCtx, InstantiateCtx, MigrateCtx, QueryCtx, SudoCtx};
    use sylvia::cw_std::{Response, StdError, StdResult};

    pub struct Bag<T> {
        pub items: Item<Vec<T>>,
    }

    #[sylvia::contract]
    impl<T> Bag<T>
    where
        T: sylvia::serde::Serialize + sylvia::serde::de::DeserializeOwned + std::fmt::Debug + Clone + PartialEq + sylvia::schemars::JsonSchema + 'static,
    {
        pub const fn new() -> Self {
            Self { items: Item::new("items") }
        }

        #[sv::msg(instantiate)]
        fn instantiate(&self, ctx: InstantiateCtx, first: T, copies: u32) -> StdResult<Response> {
            if copies == 99 {
                return Err(StdError::generic_err("too many copies"));
            }
            self.items.save(ctx.deps.storage, &vec![first; copies as usize])?;
            Ok(Response::new().add_attribute("copies", copies.to_string()))
        }

        #[sv::msg(exec)]
        fn push(&self, ctx: ExecCtx, item: T, times: u32) -> StdResult<Response> {
            if times == 13 {
                return Err(StdError::generic_err("unlucky push"));
            }
            let mut v = self.items.load(ctx.deps.storage)?;
            for _ in 0..times {
                v.push(item.clone());
            }
            self.items.save(ctx.deps.storage, &v)?;
            Ok(Response::new().add_attribute("len", v.len().to_string()).set_data(vec![v.len() as u8]))
        }

        #[sv::msg(exec)]
        fn clear(&self, ctx: ExecCtx) -> StdResult<Response> {
            self.items.save(ctx.deps.storage, &vec![])?;
            Ok(Response::new())
        }

        #[sv::msg(query)]
        fn len(&self, ctx: QueryCtx) -> StdResult<u32> {
            Ok(self.items.load(ctx.deps.storage)?.len() as u32)
        }

        #[sv::msg(query)]
        fn count_of(&self, ctx: QueryCtx, item: T) -> StdResult<u32> {
            Ok(self.items.load(ctx.deps.storage)?.iter().filter(|x| **x == item).count() as u32)
        }

        #[sv::msg(sudo)]
        fn truncate(&self, ctx: SudoCtx, to: u32) -> StdResult<Response> {
            if to == 13 {
                return Err(StdError::generic_err("unlucky truncate"));
            }
            let mut v = self.items.load(ctx.deps.storage)?;
            v.truncate(to as usize);
            self.items.save(ctx.deps.storage, &v)?;
            Ok(Response::new())
        }

        #[sv::msg(migrate)]
        fn migrate(&self, ctx: MigrateCtx, fill: T) -> StdResult<Response> {
            let v = self.items.load(ctx.deps.storage)?;
            self.items.save(ctx.deps.storage, &vec![fill; v.len()])?;
            Ok(Response::new().add_attribute("refilled", v.len().to_string()))
        }
    }
}

// ---------------------------------------------------------------------------------------------
// P4: contract whose execute entry point is overridden (multitest must go through the override)

pub mod ovr {
    use cw_storage_plus::Item;
    use sylvia::ctx::{ExecCtx, InstantiateCtx, MigrateCtx, QueryCtx, SudoCtx};
    use sylvia::cw_std::{DepsMut, Env, MessageInfo, Response, StdError, StdResult};

    #[derive(sylvia::serde::Serialize, sylvia::serde::Deserialize, Clone, Debug, PartialEq, sylvia::schemars::JsonSchema)]
    #[serde(rename_all = "snake_case", crate = "sylvia::serde")]
    #[schemars(crate = "sylvia::schemars")]
    pub enum OvrExec {
        Add { n: u32 },
        Clear {},
    }

    /// Hand-written execute entry point: doubles what `add` would add and refuses 13.
    pub fn custom_exec(deps: DepsMut, _env: Env, info: MessageInfo, msg: OvrExec) -> StdResult<Response> {
        let total: Item<u32> = Item::new("total");
        match msg {
            OvrExec::Add { n } => {
                if n == 13 {
                    return Err(StdError::generic_err("override refuses 13"));
                }
                let t = total.load(deps.storage)? + 2 * n;
                total.save(deps.storage, &t)?;
                Ok(Response::new().add_attribute("override", "add").add_attribute("by", info.sender).set_data(vec![t as u8]))
            }
            OvrExec::Clear {} => {
                total.save(deps.storage, &0)?;
                Ok(Response::new().add_attribute("override", "clear"))
            }
        }
    }

    pub struct Ovr {
        pub total: Item<u32>,
    }

    #[sylvia::contract]
    #[sv::override_entry_point(exec=crate::history_progs::ovr::custom_exec(crate::history_progs::ovr::OvrExec))]
    impl Ovr {
        pub const fn new() -> Self {
            Self { total: Item::new("total") }
        }

        #[sv::msg(instantiate)]
        fn instantiate(&self, ctx: InstantiateCtx, start: u32) -> StdResult<Response> {
            if start == 99 {
                return Err(StdError::generic_err("no"));
            }
            self.total.save(ctx.deps.storage, &start)?;
            Ok(Response::new())
        }

        #[sv::msg(exec)]
        fn add(&self, ctx: ExecCtx, n: u32) -> StdResult<Response> {
            let t = self.total.load(ctx.deps.storage)? + n;
            self.total.save(ctx.deps.storage, &t)?;
            Ok(Response::new().add_attribute("plain", "add"))
        }

        #[sv::msg(exec)]
        fn clear(&self, ctx: ExecCtx) -> StdResult<Response> {
            self.total.save(ctx.deps.storage, &0)?;
            Ok(Response::new().add_attribute("plain", "clear"))
        }

        #[sv::msg(query)]
        fn total(&self, ctx: QueryCtx) -> StdResult<u32> {
            self.total.load(ctx.deps.storage)
        }

        #[sv::msg(query)]
        fn total_plus(&self, ctx: QueryCtx, n: u32) -> StdResult<u32> {
            Ok(self.total.load(ctx.deps.storage)? + n)
        }

        #[sv::msg(sudo)]
        fn set(&self, ctx: SudoCtx, to: u32) -> StdResult<Response> {
            if to == 13 {
                return Err(StdError::generic_err("unlucky set"));
            }
            self.total.save(ctx.deps.storage, &to)?;
            Ok(Response::new())
        }

        #[sv::msg(migrate)]
        fn migrate(&self, ctx: MigrateCtx, to: u32) -> StdResult<Response> {
            if to == 13 {
                return Err(StdError::generic_err("unlucky migrate"));
            }
            self.total.save(ctx.deps.storage, &(to + 1000))?;
            Ok(Response::new().add_attribute("migrated", to.to_string()))
        }
    }
}

// ---------------------------------------------------------------------------------------------
// P5: contract and interface over custom message / query types, on a chain built over those types

pub mod cus {
    use cw_storage_plus::Item;
    use sylvia::ctx::{ExecCtx, InstantiateCtx, MigrateCtx, QueryCtx, SudoCtx};
    use sylvia::cw_std::{Response, StdError, StdResult};

    #[derive(sylvia::serde::Serialize, sylvia::serde::Deserialize, Clone, Debug, PartialEq, sylvia::schemars::JsonSchema)]
    #[serde(rename_all = "snake_case", crate = "sylvia::serde")]
    #[schemars(crate = "sylvia::schemars")]
    pub enum ChainMsg {
        Noop {},
    }
    impl sylvia::cw_std::CustomMsg for ChainMsg {}

    #[derive(sylvia::serde::Serialize, sylvia::serde::Deserialize, Clone, Debug, PartialEq, sylvia::schemars::JsonSchema)]
    #[serde(rename_all = "snake_case", crate = "sylvia::serde")]
    #[schemars(crate = "sylvia::schemars")]
    pub enum ChainQuery {
        Nothing {},
    }
    impl sylvia::cw_std::CustomQuery for ChainQuery {}

    pub mod ctally {
        use super::{ChainMsg, ChainQuery};
        use sylvia::ctx::{ExecCtx, QueryCtx, SudoCtx};
        use sylvia::cw_std::{Response, StdError};

        #[sylvia::interface]
        #[sv::custom(msg = ChainMsg, query = ChainQuery)]
        pub trait Ctally {
            type Error: From<StdError>;

            #[sv::msg(exec)]
            fn tally_add(&self, ctx: ExecCtx<ChainQuery>, n: u32) -> Result<Response<ChainMsg>, Self::Error>;

            #[sv::msg(query)]
            fn tally(&self, ctx: QueryCtx<ChainQuery>) -> Result<u32, Self::Error>;

            #[sv::msg(sudo)]
            fn tally_reset(&self, ctx: SudoCtx<ChainQuery>, to: u32) -> Result<Response<ChainMsg>, Self::Error>;
        }
    }

    pub struct Cus {
        pub count: Item<u32>,
        pub tally: Item<u32>,
    }

    #[sylvia::contract]
    #[sv::custom(msg = ChainMsg, query = ChainQuery)]
    #[sv::messages(ctally as Ctally)]
    impl Cus {
        pub const fn new() -> Self {
            Self { count: Item::new("count"), tally: Item::new("tally") }
        }

        #[sv::msg(instantiate)]
        fn instantiate(&self, ctx: InstantiateCtx<ChainQuery>, v: u32) -> StdResult<Response<ChainMsg>> {
            if v == 99 {
                return Err(StdError::generic_err("instantiate refused"));
            }
            self.count.save(ctx.deps.storage, &v)?;
            self.tally.save(ctx.deps.storage, &0)?;
            Ok(Response::new().add_attribute("init", v.to_string()))
        }

        #[sv::msg(exec)]
        fn add(&self, ctx: ExecCtx<ChainQuery>, n: u32) -> StdResult<Response<ChainMsg>> {
            if n == 13 {
                return Err(StdError::generic_err("unlucky"));
            }
            let c = self.count.load(ctx.deps.storage)? + n;
            self.count.save(ctx.deps.storage, &c)?;
            Ok(Response::new().add_attribute("count", c.to_string()).add_attribute("by", ctx.info.sender).set_data(c.to_be_bytes().to_vec()))
        }

        #[sv::msg(query)]
        fn count(&self, ctx: QueryCtx<ChainQuery>) -> StdResult<u32> {
            self.count.load(ctx.deps.storage)
        }

        #[sv::msg(sudo)]
        fn bump(&self, ctx: SudoCtx<ChainQuery>, by: u32) -> StdResult<Response<ChainMsg>> {
            if by == 13 {
                return Err(StdError::generic_err("unlucky sudo"));
            }
            let c = self.count.load(ctx.deps.storage)? + by;
            self.count.save(ctx.deps.storage, &c)?;
            Ok(Response::new().add_attribute("bumped", c.to_string()))
        }

        #[sv::msg(migrate)]
        fn migrate(&self, ctx: MigrateCtx<ChainQuery>, to: u32) -> StdResult<Response<ChainMsg>> {
            if to == 13 {
                return Err(StdError::generic_err("unlucky migrate"));
            }
            self.count.save(ctx.deps.storage, &to)?;
            Ok(Response::new().add_attribute("migrated", to.to_string()).set_data(b"mig".to_vec()))
        }
    }

    impl ctally::Ctally for Cus {
        type Error = StdError;

        fn tally_add(&self, ctx: ExecCtx<ChainQuery>, n: u32) -> Result<Response<ChainMsg>, Self::Error> {
            if n == 13 {
                return Err(StdError::generic_err("unlucky tally"));
            }
            let t = self.tally.load(ctx.deps.storage)? + n;
            self.tally.save(ctx.deps.storage, &t)?;
            Ok(Response::new().add_attribute("tally", t.to_string()))
        }

        fn tally(&self, ctx: QueryCtx<ChainQuery>) -> Result<u32, Self::Error> {
            self.tally.load(ctx.deps.storage)
        }

        fn tally_reset(&self, ctx: SudoCtx<ChainQuery>, to: u32) -> Result<Response<ChainMsg>, Self::Error> {
            self.tally.save(ctx.deps.storage, &to)?;
            Ok(Response::new())
        }
    }
}

// ---------------------------------------------------------------------------------------------
// operation alphabets

/// 999 stands for "one coin of amount zero" (legal to attach, refused by the chain's bank)
fn atom(n: u128) -> Vec<Coin> {
    if n == 999 {
        coins(0, "atom")
    } else {
        coins(n, "atom")
    }
}

#[derive(Clone, Debug)]
pub enum Op {
    Store,
    /// (v, label?, admin?, funds, by_stranger, salt?, second setter round: 0 none, 1 admin -> None, 2 admin -> stranger, 3 label -> "M", 4 funds -> none, 5 salt -> None)
    Inst { v: u32, label: Option<&'static str>, admin: bool, funds: u128, stranger: bool, salt: Option<&'static [u8]>, again: u8 },
    /// exec method index, argument, funds, by stranger, instance selector (0 = first, 1 = last)
    Exec { m: u8, arg: u32, funds: u128, stranger: bool, inst: u8 },
    Query { m: u8, arg: u32, inst: u8 },
    Sudo { m: u8, arg: u32, inst: u8 },
    Migrate { arg: u32, stranger: bool, missing_code: bool, inst: u8 },
}

fn alphabet(tier: &str) -> Vec<Op> {
    let mut v = vec![
        Op::Store,
        Op::Inst { v: 0, label: None, admin: false, funds: 0, stranger: false, salt: None, again: 0 },
        Op::Inst { v: 5, label: Some("L"), admin: true, funds: 0, stranger: false, salt: None, again: 0 },
        Op::Inst { v: 5, label: None, admin: false, funds: 2, stranger: false, salt: None, again: 0 },
        Op::Inst { v: 0, label: None, admin: false, funds: 2, stranger: true, salt: None, again: 0 },
        Op::Inst { v: 99, label: Some("bad"), admin: true, funds: 0, stranger: false, salt: None, again: 0 },
        Op::Inst { v: 7, label: None, admin: false, funds: 0, stranger: false, salt: Some(b"s1"), again: 0 },
        Op::Inst { v: 7, label: Some("S"), admin: true, funds: 1, stranger: false, salt: Some(b"s2"), again: 0 },
        Op::Exec { m: 0, arg: 1, funds: 0, stranger: false, inst: 0 },
        Op::Exec { m: 0, arg: 13, funds: 0, stranger: false, inst: 0 },
        Op::Exec { m: 0, arg: 2, funds: 3, stranger: false, inst: 1 },
        Op::Exec { m: 0, arg: 2, funds: 3, stranger: true, inst: 0 },
        Op::Exec { m: 1, arg: 4, funds: 0, stranger: true, inst: 1 },
        Op::Exec { m: 0, arg: 6, funds: 999, stranger: false, inst: 0 },
        Op::Inst { v: 3, label: None, admin: true, funds: 0, stranger: false, salt: Some(b""), again: 0 },
        Op::Inst { v: 3, label: None, admin: false, funds: 999, stranger: false, salt: None, again: 0 },
        Op::Inst { v: 6, label: Some("  spaced label "), admin: false, funds: 0, stranger: false, salt: None, again: 0 },
        Op::Inst { v: 4, label: Some("L"), admin: true, funds: 0, stranger: false, salt: None, again: 1 },
        Op::Inst { v: 4, label: None, admin: true, funds: 0, stranger: false, salt: None, again: 2 },
        Op::Inst { v: 4, label: Some("L"), admin: false, funds: 0, stranger: false, salt: None, again: 3 },
        Op::Inst { v: 4, label: None, admin: false, funds: 2, stranger: false, salt: None, again: 4 },
        Op::Inst { v: 4, label: None, admin: true, funds: 0, stranger: false, salt: Some(b"s3"), again: 5 },
        Op::Query { m: 0, arg: 0, inst: 0 },
        Op::Query { m: 1, arg: 13, inst: 1 },
        Op::Sudo { m: 0, arg: 3, inst: 0 },
        Op::Sudo { m: 0, arg: 13, inst: 1 },
        Op::Migrate { arg: 40, stranger: false, missing_code: false, inst: 0 },
        Op::Migrate { arg: 41, stranger: true, missing_code: false, inst: 0 },
        Op::Migrate { arg: 42, stranger: false, missing_code: true, inst: 1 },
        Op::Migrate { arg: 13, stranger: false, missing_code: false, inst: 1 },
    ];
    if tier == "thorough" {
        v.push(Op::Inst { v: 1, label: Some(""), admin: false, funds: 11, stranger: false, salt: Some(b""), again: 0 });
        v.push(Op::Exec { m: 1, arg: 0, funds: 1, stranger: false, inst: 0 });
        v.push(Op::Query { m: 1, arg: 2, inst: 0 });
        v.push(Op::Sudo { m: 1, arg: 0, inst: 0 });
    }
    v
}

macro_rules! program {
    ($name:ident, $label:expr, $contract:ty, $modpath:path, $err:ty, $cm:ty, $cq:ty, $inst_json:expr, $inst_call:expr,
     $exec_json:expr, $exec_call:expr, $query_json:expr, $query_call:expr, $sudo_json:expr, $sudo_call:expr, $mig_json:expr, $mig_call:expr) => {
        pub struct $name {
            ops: Vec<Op>,
        }
        impl Program for $name {
            fn name(&self) -> &'static str {
                $label
            }
            fn n_ops(&self) -> usize {
                self.ops.len()
            }
            fn describe(&self, op: usize) -> String {
                format!("{:?}", self.ops[op])
            }
            fn replay(&self, hist: &[usize]) -> StepReport {
                use $modpath as m;
                let (papp_inner, actors) = new_chain::<$cm, $cq>();
                let (mut rapp, ractors) = new_chain::<$cm, $cq>();
                let papp: SApp<$cm, $cq> = SApp::new(papp_inner);
                let mut pcodes = vec![];
                let mut rcodes: Vec<u64> = vec![];
                let mut pinsts: Vec<sylvia::multitest::Proxy<MtApp<$cm, $cq>, $contract>> = vec![];
                let mut rinsts: Vec<Addr> = vec![];
                let mut last = StepReport { enabled: true, mismatch: None, state: String::new() };
                for (step, oi) in hist.iter().enumerate() {
                    let op = self.ops[*oi].clone();
                    let is_last = step + 1 == hist.len();
                    let pick = |n: usize, sel: u8| -> Option<usize> { if n == 0 { None } else if sel == 0 { Some(0) } else { Some(n - 1) } };
                    let (po, ro): (Out, Out) = match op {
                        Op::Store => {
                            let c = m::sv::mt::CodeId::store_code(&papp);
                            let rid = rapp.store_code(Box::new(<$contract>::new()));
                            let o = Out::Ok { events: String::new(), data: None, addr: None, value: Some(c.code_id().to_string()) };
                            let r = Out::Ok { events: String::new(), data: None, addr: None, value: Some(rid.to_string()) };
                            pcodes.push(c);
                            rcodes.push(rid);
                            (o, r)
                        }
                        Op::Inst { v, label, admin, funds, stranger, salt, again } => {
                            if pcodes.is_empty() {
                                last = StepReport { enabled: false, mismatch: None, state: String::new() };
                                if is_last { return last; } else { continue; }
                            }
                            let sender = if stranger { &actors.stranger } else { &actors.owner };
                            let fnds = if funds > 0 { atom(funds) } else { vec![] };
                            let code = pcodes.last().unwrap();
                            let mut created = None;
                            let po = guarded(|| {
                                let mut b = $inst_call(code, v);
                                if let Some(l) = label { b = b.with_label(l); }
                                if admin { b = b.with_admin(actors.owner.as_str()); }
                                if funds > 0 { b = b.with_funds(&fnds); }
                                if let Some(s) = salt { b = b.with_salt(s); }
                                // a later setter call replaces what an earlier one set
                                b = match again {
                                    1 => b.with_admin(None),
                                    2 => b.with_admin(actors.stranger.as_str()),
                                    3 => b.with_label("M"),
                                    4 => b.with_funds(&[]),
                                    5 => b.with_salt(None),
                                    _ => b,
                                };
                                match b.call(sender) {
                                    Ok(p) => { let a = p.contract_addr.to_string(); created = Some(p); Out::Ok { events: String::new(), data: None, addr: Some(a), value: None } }
                                    Err(e) => Out::Typed(format!("{:?}", e)),
                                }
                            });
                            if let Some(p) = created { pinsts.push(p); }
                            let rsender = if stranger { &ractors.stranger } else { &ractors.owner };
                            // the proxy's documented default label is "Contract"
                            let radmin = match again { 1 => None, 2 => Some(ractors.stranger.to_string()), _ => if admin { Some(ractors.owner.to_string()) } else { None } };
                            let rlabel = if again == 3 { "M" } else { label.unwrap_or("Contract") };
                            let rfunds: Vec<Coin> = if again == 4 { vec![] } else { fnds.clone() };
                            let rsalt = if again == 5 { None } else { salt };
                            let (ro, ra) = raw_instantiate::<$err, $cm, $cq>(&mut rapp, rsender, *rcodes.last().unwrap(), &$inst_json(v), &rfunds, rlabel, radmin, rsalt);
                            if let Some(a) = ra { rinsts.push(a); }
                            (po, ro)
                        }
                        Op::Exec { m: mi, arg, funds, stranger, inst } => {
                            let Some(ix) = pick(rinsts.len().min(pinsts.len()), inst) else {
                                last = StepReport { enabled: false, mismatch: None, state: String::new() };
                                if is_last { return last; } else { continue; }
                            };
                            let fnds = if funds > 0 { atom(funds) } else { vec![] };
                            let sender = if stranger { &actors.stranger } else { &actors.owner };
                            let p = &pinsts[ix];
                            let po = guarded(|| match $exec_call(p, mi, arg, &fnds, sender) { Ok(r) => ok_exec(r, false), Err(e) => Out::Typed(format!("{:?}", e)) });
                            let rsender = if stranger { &ractors.stranger } else { &ractors.owner };
                            let ro = raw_exec::<$err, $cm, $cq>(&mut rapp, rsender, &rinsts[ix], &$exec_json(mi, arg), &fnds);
                            (po, ro)
                        }
                        Op::Query { m: mi, arg, inst } => {
                            let Some(ix) = pick(rinsts.len().min(pinsts.len()), inst) else {
                                last = StepReport { enabled: false, mismatch: None, state: String::new() };
                                if is_last { return last; } else { continue; }
                            };
                            let p = &pinsts[ix];
                            let po = guarded(|| proxy_query($query_call(p, mi, arg)));
                            let ro = raw_query::<u32, $err, $cm, $cq>(&rapp, &rinsts[ix], &$query_json(mi, arg));
                            (po, ro)
                        }
                        Op::Sudo { m: mi, arg, inst } => {
                            let Some(ix) = pick(rinsts.len().min(pinsts.len()), inst) else {
                                last = StepReport { enabled: false, mismatch: None, state: String::new() };
                                if is_last { return last; } else { continue; }
                            };
                            let p = &pinsts[ix];
                            let po = guarded(|| match $sudo_call(p, mi, arg) { Ok(r) => ok_exec(r, false), Err(e) => Out::Typed(format!("{:?}", e)) });
                            let ro = raw_sudo::<$err, $cm, $cq>(&mut rapp, &rinsts[ix], &$sudo_json(mi, arg));
                            (po, ro)
                        }
                        Op::Migrate { arg, stranger, missing_code, inst } => {
                            let Some(ix) = pick(rinsts.len().min(pinsts.len()), inst) else {
                                last = StepReport { enabled: false, mismatch: None, state: String::new() };
                                if is_last { return last; } else { continue; }
                            };
                            let code = if missing_code { 77 } else { *rcodes.last().unwrap() };
                            let sender = if stranger { &actors.stranger } else { &actors.owner };
                            let p = &pinsts[ix];
                            let po = guarded(|| match $mig_call(p, arg, sender, code) { Ok(r) => ok_exec(r, false), Err(e) => Out::Typed(format!("{:?}", e)) });
                            let rsender = if stranger { &ractors.stranger } else { &ractors.owner };
                            let ro = raw_migrate::<$err, $cm, $cq>(&mut rapp, rsender, &rinsts[ix], &$mig_json(arg), code);
                            (po, ro)
                        }
                    };
                    if is_last {
                        let mut mismatch = agree(&po, &ro).err();
                        let pa: Vec<Addr> = pinsts.iter().map(|p| p.contract_addr.clone()).collect();
                        let rs = dump(&rapp, &ractors, &rinsts, rcodes.len());
                        let ps = { let a = papp.app(); dump(&a, &actors, &pa, pcodes.len()) };
                        if mismatch.is_none() && ps != rs {
                            mismatch = Some(format!("chain state differs after the step: proxy chain {} vs raw chain {}", ps, rs));
                        }
                        last = StepReport { enabled: true, mismatch, state: rs.to_string() };
                    }
                }
                if hist.is_empty() {
                    last.state = dump(&rapp, &ractors, &rinsts, 0).to_string();
                }
                last
            }
        }
    };
}

fn cnt_inst<'p, 'a>(code: &'p cnt::sv::mt::CodeId<'a, cnt::Cnt, sylvia::cw_multi_test::App>, v: u32) -> cnt::sv::mt::InstantiateProxy<'p, 'a, sylvia::cw_multi_test::App> {
    code.instantiate(v)
}

fn led_inst<'p, 'a>(code: &'p led::sv::mt::CodeId<'a, led::Led, sylvia::cw_multi_test::App>, v: u32) -> led::sv::mt::InstantiateProxy<'p, 'a, sylvia::cw_multi_test::App> {
    code.instantiate(v, "n".to_string())
}

program!(
    CntProg, "cnt", cnt::Cnt, crate::history_progs::cnt, sylvia::cw_std::StdError, sylvia::cw_std::Empty, sylvia::cw_std::Empty,
    |v: u32| format!("{{\"v\":{}}}", v),
    cnt_inst,
    |mi: u8, arg: u32| if mi == 0 { format!("{{\"add\":{{\"n\":{}}}}}", arg) } else { "{\"clear\":{}}".to_string() },
    |p: &sylvia::multitest::Proxy<sylvia::cw_multi_test::App, cnt::Cnt>, mi: u8, arg: u32, f: &[Coin], s: &Addr| {
        use cnt::sv::mt::CntProxy;
        if mi == 0 { p.add(arg).with_funds(f).call(s) } else { p.clear().with_funds(f).call(s) }
    },
    |mi: u8, arg: u32| if mi == 0 { "{\"count\":{}}".to_string() } else { format!("{{\"count_plus\":{{\"n\":{}}}}}", arg) },
    |p: &sylvia::multitest::Proxy<sylvia::cw_multi_test::App, cnt::Cnt>, mi: u8, arg: u32| {
        use cnt::sv::mt::CntProxy;
        if mi == 0 { p.count() } else { p.count_plus(arg) }
    },
    |_mi: u8, arg: u32| format!("{{\"bump\":{{\"by\":{}}}}}", arg),
    |p: &sylvia::multitest::Proxy<sylvia::cw_multi_test::App, cnt::Cnt>, _mi: u8, arg: u32| {
        use cnt::sv::mt::CntProxy;
        p.bump(arg)
    },
    |arg: u32| format!("{{\"to\":{}}}", arg),
    |p: &sylvia::multitest::Proxy<sylvia::cw_multi_test::App, cnt::Cnt>, arg: u32, s: &Addr, code: u64| {
        use cnt::sv::mt::CntProxy;
        p.migrate(arg).call(s, code)
    }
);

program!(
    LedProg, "led+tally", led::Led, crate::history_progs::led, led::LedError, sylvia::cw_std::Empty, sylvia::cw_std::Empty,
    |v: u32| format!("{{\"start\":{},\"note\":\"n\"}}", v),
    led_inst,
    |mi: u8, arg: u32| if mi == 0 { format!("{{\"tally_add\":{{\"n\":{}}}}}", arg) } else { format!("{{\"spend\":{{\"n\":{}}}}}", arg) },
    |p: &sylvia::multitest::Proxy<sylvia::cw_multi_test::App, led::Led>, mi: u8, arg: u32, f: &[Coin], s: &Addr| {
        use led::sv::mt::LedProxy;
        use tally::sv::mt::TallyProxy;
        if mi == 0 { p.tally_add(arg).with_funds(f).call(s) } else { p.spend(arg).with_funds(f).call(s) }
    },
    |mi: u8, _arg: u32| if mi == 0 { "{\"tally\":{}}".to_string() } else { "{\"left\":{}}".to_string() },
    |p: &sylvia::multitest::Proxy<sylvia::cw_multi_test::App, led::Led>, mi: u8, _arg: u32| {
        use led::sv::mt::LedProxy;
        use tally::sv::mt::TallyProxy;
        if mi == 0 { p.tally() } else { p.left() }
    },
    |mi: u8, arg: u32| if mi == 0 { format!("{{\"tally_reset\":{{\"to\":{}}}}}", arg) } else { "{\"wipe\":{}}".to_string() },
    |p: &sylvia::multitest::Proxy<sylvia::cw_multi_test::App, led::Led>, mi: u8, arg: u32| {
        use led::sv::mt::LedProxy;
        use tally::sv::mt::TallyProxy;
        if mi == 0 { p.tally_reset(arg) } else { p.wipe() }
    },
    |arg: u32| format!("{{\"add\":{}}}", arg),
    |p: &sylvia::multitest::Proxy<sylvia::cw_multi_test::App, led::Led>, arg: u32, s: &Addr, code: u64| {
        use led::sv::mt::LedProxy;
        p.migrate(arg).call(s, code)
    }
);

fn bag_inst<'p, 'a>(code: &'p bag::sv::mt::CodeId<'a, bag::Bag<u32>, sylvia::cw_multi_test::App>, v: u32) -> bag::sv::mt::InstantiateProxy<'p, 'a, u32, sylvia::cw_multi_test::App> {
    code.instantiate(v, if v == 99 { 99 } else { v % 3 })
}

program!(
    BagProg, "generic bag<u32>", bag::Bag<u32>, crate::history_progs::bag, sylvia::cw_std::StdError, sylvia::cw_std::Empty, sylvia::cw_std::Empty,
    |v: u32| format!("{{\"first\":{},\"copies\":{}}}", v, if v == 99 { 99 } else { v % 3 }),
    bag_inst,
    |mi: u8, arg: u32| if mi == 0 { format!("{{\"push\":{{\"item\":{},\"times\":{}}}}}", arg + 100, arg) } else { "{\"clear\":{}}".to_string() },
    |p: &sylvia::multitest::Proxy<sylvia::cw_multi_test::App, bag::Bag<u32>>, mi: u8, arg: u32, f: &[Coin], s: &Addr| {
        use bag::sv::mt::BagProxy;
        if mi == 0 { p.push(arg + 100, arg).with_funds(f).call(s) } else { p.clear().with_funds(f).call(s) }
    },
    |mi: u8, arg: u32| if mi == 0 { "{\"len\":{}}".to_string() } else { format!("{{\"count_of\":{{\"item\":{}}}}}", arg) },
    |p: &sylvia::multitest::Proxy<sylvia::cw_multi_test::App, bag::Bag<u32>>, mi: u8, arg: u32| {
        use bag::sv::mt::BagProxy;
        if mi == 0 { p.len() } else { p.count_of(arg) }
    },
    |_mi: u8, arg: u32| format!("{{\"truncate\":{{\"to\":{}}}}}", arg),
    |p: &sylvia::multitest::Proxy<sylvia::cw_multi_test::App, bag::Bag<u32>>, _mi: u8, arg: u32| {
        use bag::sv::mt::BagProxy;
        p.truncate(arg)
    },
    |arg: u32| format!("{{\"fill\":{}}}", arg),
    |p: &sylvia::multitest::Proxy<sylvia::cw_multi_test::App, bag::Bag<u32>>, arg: u32, s: &Addr, code: u64| {
        use bag::sv::mt::BagProxy;
        p.migrate(arg).call(s, code)
    }
);

fn ovr_inst<'p, 'a>(code: &'p ovr::sv::mt::CodeId<'a, ovr::Ovr, sylvia::cw_multi_test::App>, v: u32) -> ovr::sv::mt::InstantiateProxy<'p, 'a, sylvia::cw_multi_test::App> {
    code.instantiate(v)
}

// a contract whose execute entry point is overridden by a hand-written function: proxy and raw JSON must both reach the override
program!(
    OvrProg, "overridden exec", ovr::Ovr, crate::history_progs::ovr, sylvia::cw_std::StdError, sylvia::cw_std::Empty, sylvia::cw_std::Empty,
    |v: u32| format!("{{\"start\":{}}}", v),
    ovr_inst,
    |mi: u8, arg: u32| if mi == 0 { format!("{{\"add\":{{\"n\":{}}}}}", arg) } else { "{\"clear\":{}}".to_string() },
    |p: &sylvia::multitest::Proxy<sylvia::cw_multi_test::App, ovr::Ovr>, mi: u8, arg: u32, f: &[Coin], s: &Addr| {
        use ovr::sv::mt::OvrProxy;
        if mi == 0 { p.add(arg).with_funds(f).call(s) } else { p.clear().with_funds(f).call(s) }
    },
    |mi: u8, arg: u32| if mi == 0 { "{\"total\":{}}".to_string() } else { format!("{{\"total_plus\":{{\"n\":{}}}}}", arg) },
    |p: &sylvia::multitest::Proxy<sylvia::cw_multi_test::App, ovr::Ovr>, mi: u8, arg: u32| {
        use ovr::sv::mt::OvrProxy;
        if mi == 0 { p.total() } else { p.total_plus(arg) }
    },
    |_mi: u8, arg: u32| format!("{{\"set\":{{\"to\":{}}}}}", arg),
    |p: &sylvia::multitest::Proxy<sylvia::cw_multi_test::App, ovr::Ovr>, _mi: u8, arg: u32| {
        use ovr::sv::mt::OvrProxy;
        p.set(arg)
    },
    |arg: u32| format!("{{\"to\":{}}}", arg),
    |p: &sylvia::multitest::Proxy<sylvia::cw_multi_test::App, ovr::Ovr>, arg: u32, s: &Addr, code: u64| {
        use ovr::sv::mt::OvrProxy;
        p.migrate(arg).call(s, code)
    }
);

type CusApp = MtApp<cus::ChainMsg, cus::ChainQuery>;

fn cus_inst<'p, 'a>(code: &'p cus::sv::mt::CodeId<'a, cus::Cus, CusApp>, v: u32) -> cus::sv::mt::InstantiateProxy<'p, 'a, CusApp> {
    code.instantiate(v)
}

program!(
    CusProg, "custom msg/query chain", cus::Cus, crate::history_progs::cus, sylvia::cw_std::StdError, cus::ChainMsg, cus::ChainQuery,
    |v: u32| format!("{{\"v\":{}}}", v),
    cus_inst,
    |mi: u8, arg: u32| if mi == 0 { format!("{{\"tally_add\":{{\"n\":{}}}}}", arg) } else { format!("{{\"add\":{{\"n\":{}}}}}", arg) },
    |p: &sylvia::multitest::Proxy<CusApp, cus::Cus>, mi: u8, arg: u32, f: &[Coin], s: &Addr| {
        use cus::ctally::sv::mt::CtallyProxy;
        use cus::sv::mt::CusProxy;
        if mi == 0 { p.tally_add(arg).with_funds(f).call(s) } else { p.add(arg).with_funds(f).call(s) }
    },
    |mi: u8, _arg: u32| if mi == 0 { "{\"tally\":{}}".to_string() } else { "{\"count\":{}}".to_string() },
    |p: &sylvia::multitest::Proxy<CusApp, cus::Cus>, mi: u8, _arg: u32| {
        use cus::ctally::sv::mt::CtallyProxy;
        use cus::sv::mt::CusProxy;
        if mi == 0 { p.tally() } else { p.count() }
    },
    |mi: u8, arg: u32| if mi == 0 { format!("{{\"tally_reset\":{{\"to\":{}}}}}", arg) } else { format!("{{\"bump\":{{\"by\":{}}}}}", arg) },
    |p: &sylvia::multitest::Proxy<CusApp, cus::Cus>, mi: u8, arg: u32| {
        use cus::ctally::sv::mt::CtallyProxy;
        use cus::sv::mt::CusProxy;
        if mi == 0 { p.tally_reset(arg) } else { p.bump(arg) }
    },
    |arg: u32| format!("{{\"to\":{}}}", arg),
    |p: &sylvia::multitest::Proxy<CusApp, cus::Cus>, arg: u32, s: &Addr, code: u64| {
        use cus::sv::mt::CusProxy;
        p.migrate(arg).call(s, code)
    }
);

pub fn all(tier: &str) -> Vec<Box<dyn Program>> {
    vec![Box::new(CntProg { ops: alphabet(tier) }), Box::new(LedProg { ops: alphabet(tier) }), Box::new(BagProg { ops: alphabet(tier) }),
         Box::new(OvrProg { ops: alphabet(tier) }), Box::new(CusProg { ops: alphabet(tier) })]
}
