//! E5 — history explorer for C12: breadth-first search over sequences of multitest operations.
//! Two identically seeded chains are driven in lock-step, one through sylvia's generated proxies,
//! one through raw cw-multi-test operations carrying the model's JSON bytes.  A state is the
//! history that reaches it (apps are not Clone); states are de-duplicated on a canonical dump of
//! the raw chain.
use std::collections::BTreeSet;
use std::panic::{catch_unwind, AssertUnwindSafe};
use std::sync::Mutex;

use serde_json::{json, Value};
use sylvia::cw_multi_test::{custom_app, AppResponse, BasicApp, Executor, SudoMsg, WasmSudo};
use sylvia::cw_std::{
    coins, to_json_binary, Addr, Binary, Coin, CosmosMsg, Empty, QueryRequest, StdError, WasmMsg, WasmQuery,
};
use sylvia::cw_utils::{parse_execute_response_data, parse_instantiate_response_data};
use sylvia::multitest::App;

/// the chain under test: cw-multi-test's basic app over the contract's custom message / query types
pub type MtApp<C, Q> = BasicApp<C, Q>;
pub type SApp<C, Q> = App<MtApp<C, Q>>;

/// custom message / query types a chain can be built over
pub trait ChainMsg: sylvia::cw_std::CustomMsg + serde::de::DeserializeOwned + 'static {}
impl<T: sylvia::cw_std::CustomMsg + serde::de::DeserializeOwned + 'static> ChainMsg for T {}
pub trait ChainQuery: sylvia::cw_std::CustomQuery + std::fmt::Debug + serde::de::DeserializeOwned + 'static {}
impl<T: sylvia::cw_std::CustomQuery + std::fmt::Debug + serde::de::DeserializeOwned + 'static> ChainQuery for T {}

#[derive(Clone, Debug, PartialEq)]
pub enum Out {
    Ok { events: String, data: Option<Vec<u8>>, addr: Option<String>, value: Option<String> },
    /// error that is a value of the contract's error type (Debug text without backtrace)
    Typed(String),
    /// failure raised by the chain itself (bank, wasm keeper): only "it failed" is comparable
    Chain(String),
    Panic(String),
}

pub fn events_json(r: &AppResponse) -> String {
    serde_json::to_string(&r.events.iter().map(|e| json!({"ty": e.ty, "attrs": e.attributes.iter().map(|a| (a.key.clone(), a.value.clone())).collect::<Vec<_>>()})).collect::<Vec<_>>()).unwrap()
}

pub fn ok_exec(r: AppResponse, unwrap_envelope: bool) -> Out {
    let data = match (&r.data, unwrap_envelope) {
        // `Executor::execute_contract` (used by the proxies) strips the protobuf envelope around the response data;
        // `App::execute(WasmMsg::Execute)` (the only way to send exact bytes) does not: mirror it.
        (Some(d), true) => parse_execute_response_data(d.as_slice()).ok().and_then(|m| m.data).map(|b| b.to_vec()),
        (Some(d), false) => Some(d.to_vec()),
        (None, _) => None,
    };
    Out::Ok { events: events_json(&r), data, addr: None, value: None }
}

/// Classifies an error of the raw path against the contract's error type E.
pub fn raw_err<E>(e: sylvia::anyhow::Error) -> Out
where
    E: std::fmt::Debug + std::fmt::Display + Send + Sync + 'static + From<StdError>,
{
    if let Some(x) = e.downcast_ref::<E>() {
        return Out::Typed(format!("{:?}", x));
    }
    if e.is::<StdError>() {
        let s = e.downcast::<StdError>().unwrap();
        return Out::Typed(format!("{:?}", E::from(s)));
    }
    Out::Chain(e.root_cause().to_string())
}

pub fn guarded<F: FnOnce() -> Out>(f: F) -> Out {
    match catch_unwind(AssertUnwindSafe(f)) {
        Ok(o) => o,
        Err(p) => Out::Panic(if let Some(m) = p.downcast_ref::<String>() { m.clone() } else if let Some(m) = p.downcast_ref::<&str>() { m.to_string() } else { "panic".into() }),
    }
}

/// proxy and raw outcomes agree?
pub fn agree(p: &Out, r: &Out) -> Result<(), String> {
    match (p, r) {
        (Out::Ok { .. }, Out::Ok { .. }) => {
            if p == r { Ok(()) } else { Err(format!("results differ: proxy {:?} vs raw {:?}", p, r)) }
        }
        (Out::Typed(a), Out::Typed(b)) => {
            if a == b { Ok(()) } else { Err(format!("handler error surfaces as {} through the proxy, the handler returned {}", a, b)) }
        }
        // chain-level failure: the proxy must fail too (any error value), not panic and not succeed
        (Out::Typed(_), Out::Chain(_)) | (Out::Chain(_), Out::Chain(_)) => Ok(()),
        (Out::Panic(m), Out::Chain(c)) => Err(format!("proxy panics ({}) where the raw operation returns the chain error `{}`", m.chars().take(120).collect::<String>(), c)),
        (Out::Panic(m), _) => Err(format!("proxy panics: {}", m.chars().take(200).collect::<String>())),
        _ => Err(format!("outcome classes differ: proxy {:?} vs raw {:?}", p, r)),
    }
}

pub struct Actors {
    pub owner: Addr,
    pub stranger: Addr,
}

pub fn new_chain<C: ChainMsg, Q: ChainQuery>() -> (MtApp<C, Q>, Actors) {
    let mut owner = Addr::unchecked("o");
    let mut stranger = Addr::unchecked("s");
    let app = custom_app::<C, Q, _>(|router, api, storage| {
        owner = api.addr_make("owner");
        stranger = api.addr_make("stranger");
        router.bank.init_balance(storage, &owner, coins(10, "atom")).unwrap();
    });
    (app, Actors { owner, stranger })
}

pub fn dump<C: ChainMsg, Q: ChainQuery>(app: &MtApp<C, Q>, actors: &Actors, insts: &[Addr], n_codes: usize) -> Value {
    let mut cs = vec![];
    for a in insts {
        let cd = app.contract_data(a).map(|d| json!({"code_id": d.code_id, "creator": d.creator, "admin": d.admin, "label": d.label})).unwrap_or(json!("missing"));
        let mut recs: Vec<(String, String)> = app.dump_wasm_raw(a).into_iter().map(|(k, v)| (String::from_utf8_lossy(&k).to_string(), String::from_utf8_lossy(&v).to_string())).collect();
        recs.sort();
        let bal = app.wrap().query_balance(a, "atom").map(|c| c.amount.to_string()).unwrap_or_default();
        cs.push(json!({"addr": a, "data": cd, "storage": recs, "balance": bal}));
    }
    json!({
        "contracts": cs,
        "codes": n_codes,
        "owner": app.wrap().query_balance(&actors.owner, "atom").map(|c| c.amount.to_string()).unwrap_or_default(),
        "stranger": app.wrap().query_balance(&actors.stranger, "atom").map(|c| c.amount.to_string()).unwrap_or_default(),
    })
}

// raw operations -------------------------------------------------------------------------------

pub fn raw_instantiate<E, C: ChainMsg, Q: ChainQuery>(app: &mut MtApp<C, Q>, sender: &Addr, code_id: u64, json: &str, funds: &[Coin], label: &str, admin: Option<String>, salt: Option<&[u8]>) -> (Out, Option<Addr>)
where
    E: std::fmt::Debug + std::fmt::Display + Send + Sync + 'static + From<StdError>,
{
    let msg: CosmosMsg<C> = match salt {
        None => WasmMsg::Instantiate { admin, code_id, msg: Binary::from(json.as_bytes().to_vec()), funds: funds.to_vec(), label: label.to_string() }.into(),
        Some(s) => WasmMsg::Instantiate2 { admin, code_id, label: label.to_string(), msg: Binary::from(json.as_bytes().to_vec()), funds: funds.to_vec(), salt: Binary::from(s.to_vec()) }.into(),
    };
    match app.execute(sender.clone(), msg) {
        Ok(r) => {
            let addr = r.data.as_ref().and_then(|d| parse_instantiate_response_data(d.as_slice()).ok()).map(|d| d.contract_address);
            let a = addr.clone().map(Addr::unchecked);
            (Out::Ok { events: String::new(), data: None, addr, value: None }, a)
        }
        Err(e) => (raw_err::<E>(e), None),
    }
}

pub fn raw_exec<E, C: ChainMsg, Q: ChainQuery>(app: &mut MtApp<C, Q>, sender: &Addr, contract: &Addr, json: &str, funds: &[Coin]) -> Out
where
    E: std::fmt::Debug + std::fmt::Display + Send + Sync + 'static + From<StdError>,
{
    let msg: CosmosMsg<C> = WasmMsg::Execute { contract_addr: contract.to_string(), msg: Binary::from(json.as_bytes().to_vec()), funds: funds.to_vec() }.into();
    match app.execute(sender.clone(), msg) {
        Ok(r) => ok_exec(r, true),
        Err(e) => raw_err::<E>(e),
    }
}

pub fn raw_migrate<E, C: ChainMsg, Q: ChainQuery>(app: &mut MtApp<C, Q>, sender: &Addr, contract: &Addr, json: &str, new_code_id: u64) -> Out
where
    E: std::fmt::Debug + std::fmt::Display + Send + Sync + 'static + From<StdError>,
{
    let msg: CosmosMsg<C> = WasmMsg::Migrate { contract_addr: contract.to_string(), new_code_id, msg: Binary::from(json.as_bytes().to_vec()) }.into();
    match app.execute(sender.clone(), msg) {
        Ok(r) => ok_exec(r, false),
        Err(e) => raw_err::<E>(e),
    }
}

pub fn raw_sudo<E, C: ChainMsg, Q: ChainQuery>(app: &mut MtApp<C, Q>, contract: &Addr, json: &str) -> Out
where
    E: std::fmt::Debug + std::fmt::Display + Send + Sync + 'static + From<StdError>,
{
    match app.sudo(SudoMsg::Wasm(WasmSudo { contract_addr: contract.clone(), message: Binary::from(json.as_bytes().to_vec()) })) {
        Ok(r) => ok_exec(r, false),
        Err(e) => raw_err::<E>(e),
    }
}

pub fn raw_query<T: serde::de::DeserializeOwned + serde::Serialize, E, C: ChainMsg, Q: ChainQuery>(app: &MtApp<C, Q>, contract: &Addr, json: &str) -> Out
where
    E: std::fmt::Debug + std::fmt::Display + Send + Sync + 'static + From<StdError>,
{
    let req: QueryRequest<Q> = QueryRequest::Wasm(WasmQuery::Smart { contract_addr: contract.to_string(), msg: Binary::from(json.as_bytes().to_vec()) });
    match app.wrap().query::<T>(&req) {
        Ok(v) => Out::Ok { events: String::new(), data: None, addr: None, value: Some(serde_json::to_string(&v).unwrap()) },
        Err(e) => Out::Typed(format!("{:?}", E::from(e))),
    }
}

pub fn proxy_query<T: serde::Serialize, E: std::fmt::Debug>(r: Result<T, E>) -> Out {
    match r {
        Ok(v) => Out::Ok { events: String::new(), data: None, addr: None, value: Some(serde_json::to_string(&v).unwrap()) },
        Err(e) => Out::Typed(format!("{:?}", e)),
    }
}

pub fn proxy_exec<E: std::fmt::Debug>(r: Result<AppResponse, E>, unwrap: bool) -> Out {
    match r {
        Ok(r) => ok_exec(r, unwrap && false),
        Err(e) => Out::Typed(format!("{:?}", e)),
    }
}

// ---------------------------------------------------------------------------------------------
// search

pub struct StepReport {
    pub enabled: bool,
    pub mismatch: Option<String>,
    pub state: String,
}

pub trait Program: Sync {
    fn name(&self) -> &'static str;
    fn n_ops(&self) -> usize;
    fn describe(&self, op: usize) -> String;
    /// Replays `hist` on two fresh chains; returns the report of the *last* step (earlier steps
    /// were reported when their prefix was explored).
    fn replay(&self, hist: &[usize]) -> StepReport;
}

pub fn explore(p: &dyn Program, depth: usize, max_wall_s: u64) -> Value {
    let t0 = std::time::Instant::now();
    // canonical states are kept as 128-bit digests (two independent 64-bit hashes)
    fn h128(s: &str) -> (u64, u64) {
        let mut a: u64 = 0xcbf29ce484222325;
        let mut b: u64 = 0x9e3779b97f4a7c15;
        for x in s.as_bytes() {
            a ^= *x as u64;
            a = a.wrapping_mul(0x100000001b3);
            b = (b.rotate_left(5) ^ (*x as u64)).wrapping_mul(0x2545f4914f6cdd1d);
        }
        (a, b)
    }
    let mut seen: BTreeSet<(u64, u64)> = BTreeSet::new();
    let init = p.replay(&[]);
    seen.insert(h128(&init.state));
    let mut frontier: Vec<Vec<usize>> = vec![vec![]];
    let mut transitions = 0u64;
    let mut disabled = 0u64;
    let mut viol: Vec<Value> = vec![];
    let mut per_depth = vec![];
    let mut completed_depth = 0;
    let mut capped = false;
    for d in 1..=depth {
        // work item i = (frontier[i / n_ops], op i % n_ops); workers keep only a digest of the reached state, so a level costs
        // a few bytes per transition whatever its size
        let n_ops = p.n_ops();
        let total = frontier.len() * n_ops;
        let next = std::sync::atomic::AtomicUsize::new(0);
        let results: Mutex<Vec<(usize, bool, Option<String>, (u64, u64))>> = Mutex::new(Vec::with_capacity(total));
        let over = std::sync::atomic::AtomicBool::new(false);
        std::thread::scope(|sc| {
            for _ in 0..16 {
                sc.spawn(|| {
                    let mut local = vec![];
                    loop {
                        let i = next.fetch_add(1, std::sync::atomic::Ordering::SeqCst);
                        if i >= total {
                            break;
                        }
                        if t0.elapsed().as_secs() > max_wall_s {
                            over.store(true, std::sync::atomic::Ordering::SeqCst);
                            break;
                        }
                        let mut h = frontier[i / n_ops].clone();
                        h.push(i % n_ops);
                        let rep = p.replay(&h);
                        let dg = h128(&rep.state);
                        local.push((i, rep.enabled, rep.mismatch, dg));
                        if local.len() >= 4096 {
                            results.lock().unwrap().append(&mut local);
                        }
                    }
                    results.lock().unwrap().append(&mut local);
                });
            }
        });
        if over.load(std::sync::atomic::Ordering::SeqCst) {
            capped = true;
            break;
        }
        let mut res = results.into_inner().unwrap();
        res.sort_by_key(|r| r.0);
        let mut new_frontier = vec![];
        let mut level_trans = 0u64;
        for (i, enabled, mismatch, dg) in res {
            if !enabled {
                disabled += 1;
                continue;
            }
            transitions += 1;
            level_trans += 1;
            if let Some(m) = mismatch {
                if viol.len() < 60 {
                    let mut h = frontier[i / n_ops].clone();
                    h.push(i % n_ops);
                    viol.push(json!({"program": p.name(), "history": h.iter().map(|o| p.describe(*o)).collect::<Vec<_>>(), "ops": h, "what": m}));
                }
                // a diverged pair of chains is not explored further
                continue;
            }
            if seen.insert(dg) {
                let mut h = frontier[i / n_ops].clone();
                h.push(i % n_ops);
                new_frontier.push(h);
            }
        }
        per_depth.push(json!({"depth": d, "transitions": level_trans, "new_states": new_frontier.len()}));
        completed_depth = d;
        frontier = new_frontier;
        if frontier.is_empty() {
            break;
        }
    }
    json!({"program": p.name(), "ops": p.n_ops(), "states": seen.len(), "transitions": transitions, "disabled": disabled, "per_depth": per_depth,
        "completed_depth": completed_depth, "capped": capped, "violations": viol,
        "op_alphabet": (0..p.n_ops()).map(|o| p.describe(o)).collect::<Vec<_>>()})
}

pub fn run(tier: &str) -> String {
    let depth = if tier == "thorough" { 7 } else { 5 };
    let wall = if tier == "thorough" { 900 } else { 40 };
    let progs: Vec<Box<dyn Program>> = crate::history_progs::all(tier);
    let mut out = vec![];
    for p in &progs {
        out.push(explore(p.as_ref(), depth, wall));
    }
    let _ = to_json_binary(&1u8);
    json!({"suite": "history", "depth": depth, "programs": out}).to_string()
}
