//! C05: every tuple of sorted duplicate-free lists over a 6-string alphabet through the real
//! `sylvia::utils::assert_no_intersection`; oracle: panics iff two lists share a string.
use serde_json::{json, Value};
use std::panic::catch_unwind;
use std::sync::atomic::{AtomicU64, Ordering};
use std::sync::Mutex;

// byte order (the order `str::cmp`, `sort()` and konst::cmp_str use): "" < a < a1 < a_b < ab < b
pub const ALPHA: [&str; 6] = ["", "a", "a1", "a_b", "ab", "b"];

fn subset(mask: usize) -> Vec<&'static str> {
    (0..6).filter(|i| mask & (1 << i) != 0).map(|i| ALPHA[i]).collect()
}

fn overlap(masks: &[usize]) -> bool {
    for i in 0..masks.len() {
        for j in i + 1..masks.len() {
            if masks[i] & masks[j] != 0 {
                return true;
            }
        }
    }
    false
}

fn call(lists: &[&[&'static str]]) -> bool {
    // returns true when the real function panicked
    match lists.len() {
        1 => { let a: [&[&str]; 1] = [lists[0]]; catch_unwind(|| sylvia::utils::assert_no_intersection(a)).is_err() }
        2 => { let a: [&[&str]; 2] = [lists[0], lists[1]]; catch_unwind(|| sylvia::utils::assert_no_intersection(a)).is_err() }
        3 => { let a: [&[&str]; 3] = [lists[0], lists[1], lists[2]]; catch_unwind(|| sylvia::utils::assert_no_intersection(a)).is_err() }
        4 => { let a: [&[&str]; 4] = [lists[0], lists[1], lists[2], lists[3]]; catch_unwind(|| sylvia::utils::assert_no_intersection(a)).is_err() }
        5 => { let a: [&[&str]; 5] = [lists[0], lists[1], lists[2], lists[3], lists[4]]; catch_unwind(|| sylvia::utils::assert_no_intersection(a)).is_err() }
        _ => unreachable!(),
    }
}

pub fn run(tier: &str) -> String {
    let subsets: Vec<Vec<&'static str>> = (0..64).map(subset).collect();
    // sanity of the harness itself: the alphabet is in byte order, so every subset is sorted
    for s in &subsets {
        let mut t = s.clone();
        t.sort();
        assert_eq!(&t, s, "alphabet not in byte order");
    }
    let max_n = if tier == "thorough" { 4 } else { 3 };
    let total = AtomicU64::new(0);
    let panics = AtomicU64::new(0);
    let overlapping = AtomicU64::new(0);
    let nontrivial = AtomicU64::new(0);
    let viol: Mutex<Vec<Value>> = Mutex::new(vec![]);
    let mut per_n = vec![];
    for n in 1..=max_n {
        let count = 64usize.pow(n as u32);
        let before = total.load(Ordering::SeqCst);
        let next = AtomicU64::new(0);
        std::thread::scope(|sc| {
            for _ in 0..16 {
                sc.spawn(|| loop {
                    let start = next.fetch_add(4096, Ordering::SeqCst) as usize;
                    if start >= count {
                        break;
                    }
                    for idx in start..(start + 4096).min(count) {
                        let mut masks = vec![0usize; n];
                        let mut x = idx;
                        for k in 0..n {
                            masks[k] = x % 64;
                            x /= 64;
                        }
                        let lists: Vec<&[&'static str]> = masks.iter().map(|m| subsets[*m].as_slice()).collect();
                        let want = overlap(&masks);
                        let got = call(&lists);
                        total.fetch_add(1, Ordering::Relaxed);
                        if got {
                            panics.fetch_add(1, Ordering::Relaxed);
                        }
                        if want {
                            overlapping.fetch_add(1, Ordering::Relaxed);
                        }
                        if masks.iter().filter(|m| **m != 0).count() >= 2 {
                            nontrivial.fetch_add(1, Ordering::Relaxed);
                        }
                        if got != want {
                            let mut v = viol.lock().unwrap();
                            if v.len() < 50 {
                                v.push(json!({"lists": lists, "panicked": got, "overlap": want}));
                            }
                        }
                    }
                });
            }
        });
        per_n.push(json!({"parts": n, "tuples": total.load(Ordering::SeqCst) - before}));
    }
    // longer lists / more parts, hand-picked shapes enumerated completely over rotations
    let mut extra = 0u64;
    let long: Vec<&'static str> = vec!["a", "b", "c", "d", "e", "f", "g", "h"];
    for cut1 in 0..=8 {
        for cut2 in cut1..=8 {
            for dup in 0..9 {
                let l1 = &long[..cut1];
                let l2 = &long[cut1..cut2];
                let mut l3: Vec<&'static str> = long[cut2..].to_vec();
                let want = dup < 8 && !l3.contains(&long[dup.min(7)]);
                if dup < 8 && want {
                    l3.push(long[dup]);
                    l3.sort();
                }
                for perm in [[0, 1, 2], [0, 2, 1], [1, 0, 2], [1, 2, 0], [2, 0, 1], [2, 1, 0]] {
                    let ls: [&[&'static str]; 3] = [l1, l2, l3.as_slice()];
                    let lists = [ls[perm[0]], ls[perm[1]], ls[perm[2]], &[][..], ls[perm[0]]];
                    // 5 parts, the first list repeated at the end => overlap iff that list is non-empty or the planted duplicate
                    let expect = !lists[0].is_empty() || (dup < 8 && want);
                    let got = call(&lists);
                    extra += 1;
                    if got != expect {
                        let mut v = viol.lock().unwrap();
                        if v.len() < 50 {
                            v.push(json!({"lists": lists, "panicked": got, "overlap": expect}));
                        }
                    }
                }
            }
        }
    }
    let v = viol.into_inner().unwrap();
    json!({
        "suite": "merge", "alphabet": ALPHA, "max_parts": max_n, "per_parts": per_n,
        "tuples": total.load(Ordering::SeqCst), "panicked": panics.load(Ordering::SeqCst),
        "overlapping": overlapping.load(Ordering::SeqCst), "nontrivial": nontrivial.load(Ordering::SeqCst),
        "extra_long_cases": extra,
        "violations": v,
        "sample": {"lists": [subsets[0b000110], subsets[0b010100], subsets[0b100001]], "expect_panic": true},
    })
    .to_string()
}
