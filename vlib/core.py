"""Shared orchestration: paths, cargo drivers, E1 runner, evidence, known findings, replays."""
import fcntl
import hashlib
import json
import os
import subprocess
import sys
import time

VERIF = os.path.dirname(os.path.dirname(os.path.abspath(__file__)))
REPO = os.environ.get("VERIF_REPO", "/repo")
# The registered commands use the defaults (/repo, /verif/build, /verif/evidence).  The overrides
# exist so that seeded changes can be examined in scratch worktrees without touching /repo.
BUILD = os.environ.get("VERIF_BUILD", os.path.join(VERIF, "build"))
_OUT = os.environ.get("VERIF_OUT", VERIF)
EVIDENCE = os.path.join(_OUT, "evidence")
REPLAYS = os.path.join(_OUT, "replays")
HARNESS = os.path.join(VERIF, "harness", "inproc.rs")
KNOWN = os.path.join(VERIF, "known_findings.json")

EXIT_OK, EXIT_VIOLATION, EXIT_MACHINERY = 0, 1, 2


class MachineryError(Exception):
    pass


def materialize(src_dir, name):
    """Path of a support crate whose manifest points at REPO.  For the default /repo the committed
    directory is used as is; for a scratch repository a copy with the path rewritten is made."""
    if REPO == "/repo":
        return src_dir
    import shutil
    dst = os.path.join(BUILD, "support", name)
    if os.path.exists(dst):
        shutil.rmtree(dst)
    shutil.copytree(src_dir, dst, ignore=shutil.ignore_patterns("target", "Cargo.lock"))
    mf = os.path.join(dst, "Cargo.toml")
    with open(mf) as f:
        t = f.read()
    with open(mf, "w") as f:
        f.write(t.replace('"/repo/sylvia"', '"%s/sylvia"' % REPO))
    return dst


def log(*a):
    print(*a, file=sys.stderr, flush=True)


def cargo_env(extra=None):
    env = dict(os.environ)
    env["CARGO_NET_OFFLINE"] = "true"
    env["CARGO_TERM_COLOR"] = "never"
    env.pop("RUSTFLAGS", None)
    env.pop("CARGO_TARGET_DIR", None)
    if extra:
        env.update(extra)
    return env


class BuildLock:
    """File lock so concurrently started checks do not fight over one target directory."""

    def __init__(self, name):
        os.makedirs(BUILD, exist_ok=True)
        self.path = os.path.join(BUILD, name + ".lock")

    def __enter__(self):
        self.f = open(self.path, "w")
        fcntl.flock(self.f, fcntl.LOCK_EX)
        return self

    def __exit__(self, *a):
        fcntl.flock(self.f, fcntl.LOCK_UN)
        self.f.close()


def run(cmd, cwd=None, env=None, timeout=None, check=False, capture=True):
    t0 = time.time()
    p = subprocess.run(cmd, cwd=cwd, env=env, timeout=timeout,
                       stdout=subprocess.PIPE if capture else None,
                       stderr=subprocess.PIPE if capture else None, text=True)
    dt = time.time() - t0
    if check and p.returncode != 0:
        raise MachineryError("command failed (%s): %s\n%s\n%s" % (p.returncode, " ".join(cmd), (p.stdout or "")[-3000:], (p.stderr or "")[-6000:]))
    return p, dt


# ---------------------------------------------------------------------------------------------
# E1: build sylvia-derive's unit-test binary with the hook, run it on program records

_E1_BIN = None
_SYSROOT = None


def sysroot():
    global _SYSROOT
    if not _SYSROOT:
        _SYSROOT = subprocess.check_output(["rustc", "--print", "sysroot"], cwd=REPO, text=True).strip()
    return _SYSROOT


def e1_build():
    """Builds (from /repo's working tree) the hook-enabled test binary; returns its path."""
    global _E1_BIN
    if _E1_BIN:
        return _E1_BIN
    tgt = os.path.join(BUILD, "target-e1")
    env = cargo_env({"SYLVIA_VERIF_HARNESS": HARNESS, "CARGO_TARGET_DIR": tgt})
    with BuildLock("e1"):
        cmd = ["cargo", "test", "-p", "sylvia-derive", "--features", "verif-hook", "--lib", "--offline",
               "--no-run", "--message-format=json"]
        p, dt = run(cmd, cwd=REPO, env=env)
        exe = None
        errs = []
        for line in p.stdout.splitlines():
            try:
                m = json.loads(line)
            except Exception:
                continue
            if m.get("reason") == "compiler-artifact" and m.get("target", {}).get("name") == "sylvia_derive" \
                    and m.get("profile", {}).get("test") and m.get("executable"):
                exe = m["executable"]
            if m.get("reason") == "compiler-message" and m["message"].get("level") == "error":
                errs.append(m["message"].get("rendered", ""))
        if p.returncode != 0 or not exe:
            raise MachineryError("E1 harness build failed:\n" + "\n".join(errs)[-6000:] + p.stderr[-3000:])
        log("[e1] harness built in %.1fs: %s" % (dt, exe))
    _E1_BIN = exe
    return exe


def e1_run(records, tag, threads=16, timeout=3600):
    """records: list of dicts {id, mac, attr, item, want}. Returns list of observation dicts
    (in input order; `file` records may yield several)."""
    exe = e1_build()
    d = os.path.join(BUILD, "e1", tag)
    os.makedirs(d, exist_ok=True)
    inp, outp = os.path.join(d, "in.rec"), os.path.join(d, "out.jsonl")
    with open(inp, "w") as f:
        for r in records:
            for fld in (r["id"], r["mac"], r.get("attr", ""), r["item"], r.get("want", "")):
                assert "\x1e" not in fld and "\x1f" not in fld
            f.write("\x1f".join([r["id"], r["mac"], r.get("attr", ""), r["item"], r.get("want", "")]) + "\x1e")
    if os.path.exists(outp):
        os.remove(outp)
    env = cargo_env({"VERIF_E1_IN": inp, "VERIF_E1_OUT": outp, "VERIF_E1_THREADS": str(threads)})
    # proc-macro crates link libstd dynamically
    import glob
    libdirs = [os.path.join(sysroot(), "lib")] + glob.glob(os.path.join(sysroot(), "lib", "rustlib", "*", "lib"))
    env["LD_LIBRARY_PATH"] = ":".join(libdirs) + ":" + env.get("LD_LIBRARY_PATH", "")
    p, dt = run([exe, "verif_hook::verif_e1", "--exact", "--nocapture", "--test-threads", "1"],
                cwd=os.path.join(REPO, "sylvia-derive"), env=env, timeout=timeout)
    if p.returncode != 0 or not os.path.exists(outp):
        raise MachineryError("E1 run failed rc=%s\n%s\n%s" % (p.returncode, p.stdout[-3000:], p.stderr[-3000:]))
    obs = []
    with open(outp) as f:
        for line in f:
            line = line.strip()
            if line:
                obs.append(json.loads(line))
    log("[e1] %s: %d records -> %d observations in %.1fs" % (tag, len(records), len(obs), dt))
    for o in obs:
        if o.get("harness_panic") or o.get("bad_record") is not None:
            raise MachineryError("E1 harness failure on record %r" % o)
    return obs


# ---------------------------------------------------------------------------------------------
# known findings

def load_known(prop):
    if not os.path.exists(KNOWN):
        return []
    with open(KNOWN) as f:
        data = json.load(f)
    return [e for e in data.get("findings", []) if e["property"] == prop]


def match_known(entry, viol):
    """entry['match'] is a dict of key -> value (or list of allowed values) that must all equal
    the violation record's fields (dotted keys allowed).  Only status == 'known' suppresses."""
    if entry.get("status") != "known":
        return False
    for k, want in entry.get("match", {}).items():
        cur = viol
        for part in k.split("."):
            if isinstance(cur, dict) and part in cur:
                cur = cur[part]
            else:
                cur = None
                break
        if isinstance(want, list):
            if cur not in want:
                return False
        elif cur != want:
            return False
    return True


# ---------------------------------------------------------------------------------------------
# result accumulation / evidence

class Result:
    def __init__(self, prop, tier):
        self.prop = prop
        self.tier = tier
        self.t0 = time.time()
        self.violations = []      # dicts with at least 'kind', 'what'
        self.cov = {"states": 0, "transitions": 0, "traces_validated_against_impl": 0, "samples": [],
                    "evaluations": 0, "distinct_nontrivial": 0, "rule": "", "exhaustive": True}
        self.assumptions = []
        self.outcomes = set()
        self.nontrivial = set()
        self.parts = {}           # per-engine sub coverage
        self.caps = []

    def violation(self, v):
        self.violations.append(v)

    def sample(self, s, limit=6):
        """s: a sample or a zero-argument callable producing one (an IndexError / KeyError while building it,
        e.g. because every program of the corpus was rejected, just skips the sample)."""
        if callable(s):
            try:
                s = s()
            except (IndexError, KeyError, StopIteration, TypeError):
                return
        if len(self.cov["samples"]) < limit:
            self.cov["samples"].append(s)

    def outcome(self, o):
        self.outcomes.add(o if isinstance(o, str) else json.dumps(o, sort_keys=True))

    def add(self, states=0, transitions=0, traces=0, evaluations=0):
        self.cov["states"] += states
        self.cov["transitions"] += transitions
        self.cov["traces_validated_against_impl"] += traces
        self.cov["evaluations"] += evaluations

    def mark_nontrivial(self, key):
        self.nontrivial.add(key if isinstance(key, str) else json.dumps(key, sort_keys=True))

    def finish(self):
        """Writes evidence, replays, prints verdict lines; returns the exit code."""
        known = load_known(self.prop)
        new, seen_known = [], {}
        for v in self.violations:
            hit = None
            for e in known:
                if match_known(e, v):
                    hit = e
                    break
            if hit:
                seen_known.setdefault(hit["key"], (hit, 0))
                seen_known[hit["key"]] = (hit, seen_known[hit["key"]][1] + 1)
            else:
                new.append(v)
        if os.environ.get("VERIF_DUMP_ALL"):
            os.makedirs(BUILD, exist_ok=True)
            with open(os.path.join(BUILD, "violations-%s.json" % self.prop), "w") as f:
                json.dump(self.violations, f, indent=1)
        self.cov["distinct_nontrivial"] = len(self.nontrivial)
        self.cov["distinct_outcomes"] = len(self.outcomes)
        if self.parts:
            self.cov["parts"] = self.parts
        if self.caps:
            self.cov["caps_hit"] = self.caps
            self.cov["exhaustive"] = False
        self.cov["known_findings_seen"] = {k: n for k, (e, n) in seen_known.items()}
        ev = {
            "property_id": self.prop,
            "tier": self.tier,
            "seed": int(os.environ.get("VERIF_SEED", "0") or 0),
            "level": "model_checking",
            "coverage": self.cov,
            "assumptions": self.assumptions,
            "wall_s": round(time.time() - self.t0, 2),
            "violations": len(new),
        }
        os.makedirs(EVIDENCE, exist_ok=True)
        with open(os.path.join(EVIDENCE, self.prop + ".json"), "w") as f:
            json.dump(ev, f, indent=1, sort_keys=True)
            f.write("\n")
        for k, (e, n) in sorted(seen_known.items()):
            print("KNOWN-FINDING: property=%s %s [%s] (%d cases)" % (self.prop, e["what"], k, n))
        # replay files describe this run only: drop those of earlier runs
        d = os.path.join(REPLAYS, self.prop)
        if os.path.isdir(d):
            for fn in os.listdir(d):
                if fn.endswith(".json"):
                    os.remove(os.path.join(d, fn))
            if not os.listdir(d):
                os.rmdir(d)
        if new:
            os.makedirs(d, exist_ok=True)
            shown = set()
            for v in new:
                key = v.get("dedup") or hashlib.sha1(json.dumps(v, sort_keys=True).encode()).hexdigest()[:12]
                if key in shown:
                    continue
                shown.add(key)
                if len(shown) > 25:
                    break
                path = os.path.join(d, "%s.json" % key)
                with open(path, "w") as f:
                    json.dump(v, f, indent=1, sort_keys=True)
                print("VIOLATION property=%s replay=%s" % (self.prop, path))
                log("  -> %s" % (v.get("what", "")[:400]))
            print("%s: %d violation(s) (%d distinct shown), %s" % (self.prop, len(new), len(shown), self.summary()))
            return EXIT_VIOLATION
        print("%s: held. %s" % (self.prop, self.summary()))
        return EXIT_OK

    def summary(self):
        c = self.cov
        return "states=%d transitions=%d traces_validated=%d distinct_nontrivial=%d distinct_outcomes=%d wall=%.1fs" % (
            c["states"], c["transitions"], c["traces_validated_against_impl"], len(self.nontrivial),
            len(self.outcomes), time.time() - self.t0)
