"""E4 — static runtime suites (suites/rt): build against /repo's working tree and run."""
import json
import os
import shutil

from . import core

RT = core.materialize(os.path.join(core.VERIF, "suites", "rt"), "rt")
_BIN = {}


class FrameworkRejected(Exception):
    """The framework crate itself does not compile under an explored subset of its cargo features."""

    def __init__(self, diags, feats):
        Exception.__init__(self, diags[0]["message"] if diags else "rejected")
        self.diags = diags
        self.feats = feats


class SuiteRejected(Exception):
    """The suite's own (static, valid) sources no longer compile against the tree: the API the property is about broke."""

    def __init__(self, diags):
        Exception.__init__(self, diags[0]["message"] if diags else "rejected")
        self.diags = diags


F_ALL = ("f_staking", "f_stargate", "f_cw20")


def build(only=None, feats=None):
    """Builds all suites; when that fails, `only`'s suite alone (its cargo feature), so that a tree that breaks the API
    of one suite does not take the others down.  Errors located in the suite's own sources raise SuiteRejected.
    `feats` (with `only`): the subset of the framework feature switches f_staking / f_stargate / f_cw20 to build with.
    Every built binary is copied aside under the build lock (all builds share one cargo output path)."""
    key = (only or "all") + ("" if feats is None else "+" + ",".join(sorted(feats)))
    if "all" in _BIN and feats is None:
        return _BIN["all"]
    if key in _BIN:
        return _BIN[key]
    lock = os.path.join(RT, "Cargo.lock")
    if not os.path.exists(lock):
        shutil.copy(os.path.join(core.REPO, "Cargo.lock"), lock)
    tgt = os.path.join(core.BUILD, "target-e2")
    env = core.cargo_env({"CARGO_TARGET_DIR": tgt})
    args = []
    if only:
        args = ["--no-default-features", "--features", ",".join(["s_" + only] + list(F_ALL if feats is None else feats))]
    exe = None
    errs = []
    own = []
    fw_errs = []
    with core.BuildLock("e2"):
        p, dt = core.run(["cargo", "build", "--offline", "--message-format=json"] + args, cwd=RT, env=env)
        for line in p.stdout.splitlines():
            try:
                m = json.loads(line)
            except Exception:
                continue
            if m.get("reason") == "compiler-artifact" and m.get("executable") and m["target"]["name"] == "rt":
                exe = m["executable"]
            if m.get("reason") == "compiler-message" and m["message"].get("level") == "error":
                errs.append(m["message"].get("rendered", ""))
                if m.get("target", {}).get("name") == "sylvia":
                    sp = [x for x in m["message"].get("spans", []) if x.get("is_primary")]
                    fw_errs.append({"message": m["message"].get("message", ""), "code": (m["message"].get("code") or {}).get("code"),
                                    "file": sp[0]["file_name"] if sp else None, "line": sp[0]["line_start"] if sp else None,
                                    "rendered": m["message"].get("rendered", "")[:1500]})
                if m.get("target", {}).get("name") == "rt":
                    sp = [x for x in m["message"].get("spans", []) if x.get("is_primary")]
                    own.append({"message": m["message"].get("message", ""), "code": (m["message"].get("code") or {}).get("code"),
                                "file": sp[0]["file_name"] if sp else None, "line": sp[0]["line_start"] if sp else None,
                                "rendered": m["message"].get("rendered", "")[:1500]})
        if p.returncode == 0 and exe:
            bindir = os.path.join(core.BUILD, "bin")
            os.makedirs(bindir, exist_ok=True)
            mine = os.path.join(bindir, "rt-%s-%d" % (key.replace(",", "_").replace("+", "-"), os.getpid()))
            shutil.copy2(exe, mine)
            exe = mine
    if (p.returncode != 0 or not exe) and not only:
        return None
    if p.returncode != 0 or not exe:
        own = [d for d in own if d["message"] and not d["message"].startswith("aborting due to")]
        if own:
            raise SuiteRejected(own)
        fw_errs = [d for d in fw_errs if d["message"] and not d["message"].startswith("aborting due to")]
        if fw_errs and feats is not None and set(feats) != set(F_ALL):
            raise FrameworkRejected(fw_errs, feats)
        raise core.MachineryError("runtime suite does not build against the current tree:\n%s\n%s" % ("\n".join(errs)[-5000:], p.stderr[-2000:]))
    core.log("[e4] suites built in %.1fs (%s)" % (dt, key))
    _BIN[key] = exe
    import atexit
    atexit.register(lambda path=exe: os.path.exists(path) and os.remove(path))
    return exe


def run_suite(name, tier, timeout=3600, feats=None):
    exe = build(only=name, feats=feats) if feats is not None else (build() or build(only=name))
    env = dict(os.environ)
    env["RUST_BACKTRACE"] = "0"
    p, dt = core.run([exe, name, tier], env=env, timeout=timeout)
    if p.returncode != 0:
        raise core.MachineryError("suite %s crashed rc=%s: %s" % (name, p.returncode, p.stderr[-3000:]))
    out = json.loads(p.stdout.strip().splitlines()[-1])
    core.log("[e4] suite %s %s ran in %.1fs" % (name, tier, dt))
    return out


# sources of the framework whose failure to compile under a feature subset is the suite's property failing there
SUITE_FRAMEWORK_FILES = {"intoresp": ("into_response.rs",)}

SUITE_PROPERTY_API = {
    "merge": "sylvia::utils::assert_no_intersection",
    "intoresp": "sylvia::into_response::IntoResponse",
    "remote": "sylvia::types::Remote with concrete, generic, dyn Interface and unsized parameters (serde, schema, storage)",
    "builders": "the generated Executor / Querier helpers, InstantiateBuilder and Remote constructors",
    "history": "the generated multitest helpers (CodeId, InstantiateProxy, Proxy, MigrateProxy)",
}


class _Stub(dict):
    def __missing__(self, k):
        return [] if k in ("msg_kinds", "programs") else 0


def stub():
    return _Stub()


def run_suite_into(res, name, tier, timeout=3600, feats=None):
    """run_suite, with a rejection of the suite's own valid sources by the compiler reported as violations of res's property."""
    try:
        return run_suite(name, tier, timeout=timeout, feats=feats)
    except FrameworkRejected as e:
        mine = [d for d in e.diags if d["file"] and d["file"].endswith(SUITE_FRAMEWORK_FILES.get(name, ()))] if SUITE_FRAMEWORK_FILES.get(name) else []
        if not mine:
            raise core.MachineryError("the framework does not build with features %s: %s" % (sorted(e.feats), e.diags[0]["rendered"]))
        fl = "+".join(f[2:] for f in e.feats) or "none"
        d = mine[0]
        res.violation({"kind": "compile", "cls": "framework_rejected_under_features", "suite": name, "features": fl, "code": d["code"], "file": d["file"], "line": d["line"], "rendered": d["rendered"],
                       "what": "built with the feature subset {%s} the framework itself does not compile, in the code this property is about: %s %s at %s:%s" % (
                           fl, d["code"], d["message"][:300], d["file"], d["line"])})
        res.add(states=1, transitions=1, traces=1, evaluations=1)
        res.mark_nontrivial("framework_rejected:" + fl)
        return None
    except SuiteRejected as e:
        seen = set()
        for d in e.diags:
            key = (d["code"], d["file"], d["message"][:80])
            if key in seen:
                continue
            seen.add(key)
            res.violation({"kind": "compile", "cls": "suite_rejected", "suite": name, "code": d["code"], "file": d["file"], "line": d["line"], "rendered": d["rendered"],
                           "what": "the static %s suite (valid programs using %s) no longer compiles against the tree: %s %s at suites/rt/%s:%s" % (
                               name, SUITE_PROPERTY_API[name], d["code"], d["message"][:300], d["file"], d["line"])})
        res.add(states=1, transitions=1, traces=1, evaluations=1)
        res.mark_nontrivial("suite_rejected")
        return None
