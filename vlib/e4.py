"""E4 — static runtime suites (suites/rt): build against /repo's working tree and run."""
import json
import os
import shutil

from . import core

RT = core.materialize(os.path.join(core.VERIF, "suites", "rt"), "rt")
_BIN = None


def build():
    global _BIN
    if _BIN:
        return _BIN
    lock = os.path.join(RT, "Cargo.lock")
    if not os.path.exists(lock):
        shutil.copy(os.path.join(core.REPO, "Cargo.lock"), lock)
    tgt = os.path.join(core.BUILD, "target-e2")
    env = core.cargo_env({"CARGO_TARGET_DIR": tgt})
    with core.BuildLock("e2"):
        p, dt = core.run(["cargo", "build", "--offline", "--message-format=json"], cwd=RT, env=env)
    exe = None
    errs = []
    for line in p.stdout.splitlines():
        try:
            m = json.loads(line)
        except Exception:
            continue
        if m.get("reason") == "compiler-artifact" and m.get("executable") and m["target"]["name"] == "rt":
            exe = m["executable"]
        if m.get("reason") == "compiler-message" and m["message"].get("level") == "error":
            errs.append(m["message"].get("rendered", ""))
    if p.returncode != 0 or not exe:
        raise core.MachineryError("runtime suite does not build against the current tree:\n%s\n%s" % ("\n".join(errs)[-5000:], p.stderr[-2000:]))
    core.log("[e4] suites built in %.1fs" % dt)
    _BIN = exe
    return exe


def run_suite(name, tier, timeout=3600):
    exe = build()
    env = dict(os.environ)
    env["RUST_BACKTRACE"] = "0"
    p, dt = core.run([exe, name, tier], env=env, timeout=timeout)
    if p.returncode != 0:
        raise core.MachineryError("suite %s crashed rc=%s: %s" % (name, p.returncode, p.stderr[-3000:]))
    out = json.loads(p.stdout.strip().splitlines()[-1])
    core.log("[e4] suite %s %s ran in %.1fs" % (name, tier, dt))
    return out
