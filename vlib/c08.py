"""C08 — sub-message builders and reply dispatch agree on id, trigger and payload."""
import itertools
import json

from . import core, model, fam_basic, fam_reply, c07
from .fam_reply import b64, reply_doc, builder_reply_on, route

RECEIVERS = [("submsg", None), ("submsg", 7), ("wasm", None), ("cosmos", None)]
RAW_PAYLOADS = [b"", b"\x00\xff\x10raw", b'{"looks":"like json"}']


def payload_tuples(rm, tier):
    if rm.payload == ("raw",):
        return [(json.dumps(b64(p)),) for p in RAW_PAYLOADS]
    doms = [model.TYPE_VALUES[t] for t in rm.payload]
    tups = list(itertools.product(*doms))
    return tups if tier == "thorough" else tups[:6]


def run_e1_ids(res, tier):
    """Distinct reply handler names get distinct ids: all ordered pairs of small identifiers."""
    from . import c03
    from .fam_reply import RM
    idents = [s for s in c03.small_idents(3 if tier == "quick" else 4) if not s.startswith("_") and not s.endswith("_")]
    if tier == "thorough":
        idents = [s for s in idents if len(s) <= 3 or "1" in s or "_" in s][:140]
    recs, meta = [], {}
    for n1, n2 in itertools.permutations(idents, 2):
        for shape in ("aa", "se"):
            if shape == "aa":
                rms = [RM(fn="r0", handlers=(n1,), on="always"), RM(fn="r1", handlers=(n2,), on="always")]
            else:
                rms = [RM(fn="r0", handlers=(n1,), on="success"), RM(fn="r1", handlers=(n2,), on="error")]
            r = model.e1_contract_record("%s:%s:%s" % (shape, n1, n2), fam_reply.contract_of(rms, entry_points=None), want="items")
            recs.append(r)
            meta[r["id"]] = (n1, n2, shape, r["item"])
    obs = core.e1_run(recs, "c08-" + tier)
    for o in obs:
        n1, n2, shape, src = meta[o["id"]]
        res.add(states=1, transitions=1, evaluations=1)
        res.mark_nontrivial("e1:" + o["id"])
        if o.get("panic"):
            res.outcome("macro_panic")
            continue
        _, items = model.sv_items(o)
        consts = [(it["name"], it.get("expr")) for it in items if it.get("k") == "const" and it["name"].endswith("_REPLY_ID")]
        res.outcome((bool(o.get("dirty")), len(consts)))
        import re
        rule = ("underscore_placement_around_digits" if (n1.replace("_", "") == n2.replace("_", "") and re.search(r"[0-9]", n1))
                else "underscore_run_length" if re.sub(r"_+", "_", n1) == re.sub(r"_+", "_", n2) else "other")
        if o.get("dirty"):
            res.violation({"kind": "ids_e1", "cls": "distinct_names_rejected", "differ_by": rule, "names": [n1, n2], "shape": shape, "program": src,
                           "what": "reply handler names `%s` and `%s` are distinct but the contract is rejected (their id constants coincide)" % (n1, n2)})
        elif len(consts) != 2 or consts[0][0] == consts[1][0] or model.norm(consts[0][1]) == model.norm(consts[1][1]):
            res.violation({"kind": "ids_e1", "cls": "distinct_names_share_id", "differ_by": rule, "names": [n1, n2], "shape": shape, "program": src, "consts": consts,
                           "what": "reply handler names `%s` and `%s` are distinct but get id constants %s" % (n1, n2, consts)})
    res.parts["e1_name_pairs"] = len(recs)


def run(tier):
    res = core.Result("C08", tier)
    run_e1_ids(res, tier)
    cp, info = fam_reply.corpus(tier)
    fam_basic.report_failed(res, cp, "reply")
    ids = c07.get_ids(cp, info)
    cx = fam_basic.CONTEXTS[1]
    bases = {}
    for pid in info:
        if pid in cp.failed:
            continue
    bcases = [{"prog": pid, "op": "bases", "extra": {"gas_limit": g}} for pid in sorted(info) if pid not in cp.failed for g in (None, 7)]
    for bc, o in zip(bcases, cp.run_cases(bcases)):
        bases[(bc["prog"], bc["extra"]["gas_limit"])] = o
    cases, exp = [], []
    for pid, (c, rms, tags, names) in sorted(info.items()):
        if pid in cp.failed:
            continue
        vals = list(ids[pid].values())
        res.add(states=1, transitions=1, evaluations=1)
        if len(set(vals)) != len(vals):
            res.violation({"kind": "ids", "pid": pid, "ids": ids[pid], "what": "%s: reply ids are not pairwise distinct: %s" % (pid, ids[pid])})
        for name, entry in names.items():
            rm = next(iter(entry.values()))
            for recv, gas in RECEIVERS:
                for tup in payload_tuples(rm, tier):
                    cases.append({"prog": pid, "op": "submsg", "input": json.dumps(list(tup)), "extra": {"name": name, "recv": recv, "gas_limit": gas}})
                    exp.append((pid, names, name, entry, rm, recv, gas, tup))
    obs = cp.run_cases(cases)
    cases2, back = [], []
    for n, (case, e, o) in enumerate(zip(cases, exp, obs)):
        pid, names, name, entry, rm, recv, gas, tup = e
        res.add(states=1, transitions=1, traces=1, evaluations=1)
        res.mark_nontrivial("%s|%s|%s|%s|%s" % (pid, name, recv, gas, tup))

        def bad(what, cls):
            res.violation({"kind": "builder", "cls": cls, "pid": pid, "name": name, "receiver": recv, "gas_limit": gas, "payload_args": list(tup), "obs": o,
                           "what": "%s builder `%s` on %s%s with %s: %s" % (pid, name, recv, "(gas %s)" % gas if gas else "", list(tup), what)})
        if "panic" in o or "ok" not in o:
            bad("builder failed: %s" % o, "failed")
            continue
        sm = o["ok"]
        if sm["id"] != ids[pid][name]:
            bad("stamped id %s, the name's id is %s" % (sm["id"], ids[pid][name]), "id")
        want_on = builder_reply_on(entry)
        if sm["reply_on"] != want_on:
            bad("reply_on `%s`, methods exist for %s => expected `%s`" % (sm["reply_on"], sorted(entry), want_on), "reply_on")
        b = bases[(pid, gas)]
        want_msg = b["submsg"]["msg"] if recv == "submsg" else b[recv]
        if sm["msg"] != want_msg:
            bad("wrapped message changed: %s vs %s" % (json.dumps(sm["msg"])[:200], json.dumps(want_msg)[:200]), "msg")
        want_gas = gas if recv == "submsg" else None
        if sm["gas_limit"] != want_gas:
            bad("gas_limit %s, expected %s" % (sm["gas_limit"], want_gas), "gas_limit")
        if rm.payload == ("raw",) and sm["payload"] != json.loads(tup[0]):
            bad("raw payload not carried byte for byte: %s vs %s" % (sm["payload"], tup[0]), "raw_payload")
        res.outcome(("built", recv, sm["reply_on"]))
        # the chain would deliver this reply: same id, same payload, for both outcomes
        import base64
        pl = base64.b64decode(sm["payload"])
        sm_rm = entry.get("success")
        data = None
        if sm_rm is not None and sm_rm.data != "none":
            if sm_rm.data.startswith("raw"):
                data = b"x"
            elif sm_rm.data.startswith("instantiate"):
                data = fam_reply.instantiate_envelope("a")
            else:
                data = fam_reply.execute_envelope(model.TYPE_VALUES[sm_rm.data_ty][-1].encode())
        for ok in (True, False):
            cases2.append({"prog": pid, "op": "ep", "kind": "reply", "input": reply_doc(sm["id"], pl, 5, ok, [], data, []), "ctx": cx})
            back.append((n, ok))
    obs2 = cp.run_cases(cases2)
    for (n, ok), c2, o in zip(back, cases2, obs2):
        pid, names, name, entry, rm, recv, gas, tup = exp[n]
        res.add(transitions=1, traces=1)
        m = route(entry, ok)
        if m is None:
            continue

        def bad(what, cls):
            res.violation({"kind": "roundtrip", "cls": cls, "pid": pid, "name": name, "receiver": recv, "payload_args": list(tup), "ok": ok, "obs": o,
                           "what": "%s `%s` built on %s with %s, reply %s: %s" % (pid, name, recv, list(tup), "Ok" if ok else "Err", what)})
        if o.get("res") != "ok":
            bad("dispatching the eventual reply fails: %s" % (o.get("err") or o), "dispatch")
            continue
        try:
            a = c07.echo_of(o)["args"]
        except (IndexError, KeyError):
            bad("the reply was answered without running handler Ct::%s: %s" % (m.fn, json.dumps(o.get("resp"))[:200]), "handler")
            continue
        if c07.echo_of(o)["h"] != "Ct::" + m.fn:
            bad("reply reached %s, expected Ct::%s" % (c07.echo_of(o)["h"], m.fn), "handler")
        if m.payload == ("raw",):
            if a.get("payload") != json.loads(tup[0]):
                bad("handler got payload %s, builder was given %s" % (a.get("payload"), tup[0]), "payload")
        else:
            got = [a.get("p%d" % j) for j in range(len(m.payload))]
            want = [json.loads(v) for v in tup]
            if got != want:
                bad("handler got payload parameters %s, builder was given %s" % (got, want), "payload")
        res.outcome(("delivered", ok))
    res.parts["builder_cases"] = len(cases)
    res.parts["roundtrip_replies"] = len(cases2)
    res.sample(lambda: {"builder_case": cases[3], "built": obs[3]})
    res.cov["rule"] = ("every reply name of the reply corpus x receiver in {existing SubMsg (gas limit none / 7, pre-set id, payload, trigger), WasmMsg, CosmosMsg} x "
                       "payload arguments (raw: 3 byte strings; typed: alphabet tuples): id == the name's constant, ids pairwise distinct, reply_on per the method set, "
                       "message and gas limit preserved; then the reply the chain would deliver (same id and payload, Ok and Err) is dispatched and the handler's "
                       "payload parameters must equal the builder's arguments.  non-trivial = every (name, receiver, payload) case")
    res.assumptions += ["names differing only by an underscore before a digit are kept out of the compiled corpus (their shared id constant is C18/C08 E1 territory)"]
    return res.finish()
