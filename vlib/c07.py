"""C07 — reply routing honours the declared handler and outcome."""
import itertools
import json

from . import core, model, fam_basic, fam_reply
from .fam_reply import b64, reply_doc, EVENTS, MSG_RESPONSES, route


def get_ids(cp, info):
    cases = [{"prog": pid, "op": "ids"} for pid in sorted(info) if pid not in cp.failed]
    out = {}
    for c, o in zip(cases, cp.run_cases(cases)):
        out[c["prog"]] = {n: i for n, i in o}
    return out


def echo_of(o):
    return json.loads([a for a in o["resp"]["attributes"] if a["key"] == "echo"][0]["value"])


def run_into(res, tier, want_tags=None, features="full"):
    cp, info = fam_reply.corpus(tier, features)
    ids = get_ids(cp, info)
    cx = fam_basic.CONTEXTS[2]
    cases, exp = [], []
    for pid, (c, rms, tags, names) in sorted(info.items()):
        if pid in cp.failed:
            res.violation({"kind": "compile", "cls": "valid_table_rejected", "pid": pid, "diags": cp.failed[pid][:2],
                           "what": "%s: valid reply table does not compile: %s" % (pid, cp.failed[pid][0]["message"])})
            continue
        if "modes" in tags:
            continue  # data extraction is C09's subject
        myids = ids[pid]
        unknown = [max(myids.values()) + 1, 2 ** 63]
        for name, rid in list(myids.items()) + [(None, u) for u in unknown]:
            for ok in (True, False):
                space = itertools.product(([], EVENTS), (None, b"\x01\x02"), ([], MSG_RESPONSES), (0, 123456), (b"pl", b""))
                for events, data, mr, gas, payload in space:
                    if not ok and (events or data or mr):
                        continue
                    entry = names.get(name) if name else None
                    # typed payloads need a decodable payload: use the model encoding of alphabet values
                    pl = payload
                    if entry:
                        rm = next(iter(entry.values()))
                        if rm.payload != ("raw",):
                            covered = route(entry, ok) is not None
                            if payload == b"" and covered:
                                continue   # a handler with typed payload parameters needs a decodable payload
                            if payload == b"pl" or covered:
                                vals = [model.TYPE_VALUES[t][0] for t in rm.payload]
                                pl = (vals[0] if len(vals) == 1 else "[" + ",".join(vals) + "]").encode()
                            # else: uncovered outcome with an undecodable (empty) payload — must still be passed through
                    d = reply_doc(rid, pl, gas, ok, events, data, mr)
                    for op in ("ep", "mt"):
                        cases.append({"prog": pid, "op": op, "kind": "reply", "input": d, "ctx": cx})
                        exp.append((pid, names, name, rid, ok, events, data, mr, gas, pl, op, d))
    obs = cp.run_cases(cases)
    for case, e, o in zip(cases, exp, obs):
        pid, names, name, rid, ok, events, data, mr, gas, pl, op, d = e
        res.add(states=1, transitions=1, traces=1, evaluations=1)

        def bad(what, cls):
            res.violation({"kind": "routing", "cls": cls, "pid": pid, "name": name, "id": rid, "ok": ok, "via": op, "reply": d, "obs": o,
                           "what": "%s reply id=%s (%s) %s via %s: %s" % (pid, rid, name, "Ok" if ok else "Err", op, what)})
        if "panic" in o:
            bad("panic: %s" % o["panic"], "panic")
            continue
        if o.get("res") == "decode_err":
            raise core.MachineryError("reply document not decodable: %s: %s" % (d, o))
        log = (o.get("storage") or {}).get("log", "")
        if name is None:
            res.outcome("unknown_id")
            if o.get("res") != "err" or str(rid) not in o.get("err", ""):
                bad("id belongs to no handler but the result is %s %s" % (o.get("res"), o.get("err")), "unknown_id")
            if log:
                bad("a handler ran for an unknown id: %s" % log, "unknown_id_ran")
            continue
        res.mark_nontrivial("%s|%s|%s|%s|%s|%s|%s|%s" % (pid, name, ok, bool(events), data, bool(mr), gas, pl))
        entry = names[name]
        m = route(entry, ok)
        if m is None:
            res.outcome(("passthrough", ok))
            if log:
                bad("no method covers the outcome but handler(s) ran: %s" % log, "passthrough_ran")
            if ok:
                if o.get("res") != "ok":
                    bad("uncovered success must be answered with the sub-message's events and data, got error %s" % o.get("err"), "passthrough_ok")
                    continue
                r = o["resp"]
                want_data = b64(data) if data is not None else None
                if r.get("events") != events or r.get("data") != want_data or r.get("messages") or r.get("attributes"):
                    bad("pass-through response %s, expected events %s and data %s only" % (json.dumps(r)[:300], events, want_data), "passthrough_ok")
            else:
                if o.get("res") != "err" or "boom" not in o.get("err", ""):
                    bad("uncovered failure must be answered with that error, got %s %s" % (o.get("res"), o.get("err")), "passthrough_err")
            continue
        h = "Ct::" + m.fn
        res.outcome(("handled", m.outcome(), ok))
        if o.get("res") != "ok":
            bad("expected handler %s to run, got error %s" % (h, o.get("err")), "not_handled")
            continue
        if log != h + ";":
            bad("handlers run: `%s`, expected exactly `%s` once" % (log, h), "wrong_handler")
            continue
        try:
            ec = echo_of(o)
        except Exception:
            bad("unreadable echo", "echo")
            continue
        a = ec["args"]
        if ec["h"] != h:
            bad("echo from %s, expected %s" % (ec["h"], h), "wrong_handler")
        if a.get("@gas_used") != gas:
            bad("handler saw gas_used %s, reply carried %s" % (a.get("@gas_used"), gas), "gas")
        if m.outcome() == "success":
            if a.get("@events") != events or a.get("@msg_responses") != mr:
                bad("success handler saw events %s / msg_responses %s, expected %s / %s" % (a.get("@events"), a.get("@msg_responses"), events, mr), "ctx_events")
            if m.data == "raw,opt":
                want = b64(data) if data is not None else None
                if a.get("data") != want:
                    bad("data parameter %s, expected %s" % (a.get("data"), want), "data")
        elif m.outcome() == "error":
            if a.get("error") != "boom":
                bad("error handler got text %s" % a.get("error"), "error_text")
        else:
            want = json.loads(d)["result"]
            if a.get("result") != want:
                bad("always handler got result %s, expected %s" % (a.get("result"), want), "result")
        if m.payload == ("raw",):
            if a.get("payload") != b64(pl):
                bad("payload %s, expected %s" % (a.get("payload"), b64(pl)), "payload")
        else:
            got = [a.get("p%d" % j) for j in range(len(m.payload))]
            want = [json.loads(model.TYPE_VALUES[t][0]) for t in m.payload]
            if got != want:
                bad("payload parameters %s, expected %s" % (got, want), "payload")
        if ec["height"] != cx["height"] or ec["seen"] != cx["storage"].get("probe"):
            bad("handler saw another context", "context")
    res.parts["reply_cases_" + features] = len(cases)
    if cases:
        res.sample(lambda: {"reply": cases[40]["input"], "program": cases[40]["prog"], "observation": obs[40]})


def run(tier):
    res = core.Result("C07", tier)
    run_into(res, tier)
    # the framework's optional cargo features (cosmwasm_*, stargate) must not change reply routing: the packed tables
    # are replayed on a build with only the mandatory features on
    run_into(res, tier, features="min")
    res.cov["rule"] = ("reply corpus (quick: packed tables — success-only, error-only, always, default, success+error via two methods, methods listing two "
                       "names, all declaration orders of a success/error pair; thorough: every valid table of <= 3 methods over handlers in {absent,[h],[g],[h,g]} x "
                       "reply_on in {success,error,always,absent}): every declared id and two undeclared ids x Ok/Err x events {none,2} x data {none,some} x "
                       "msg_responses {none,1} x gas {0,123456} x payload {bytes, empty}, through the reply entry point and the multitest Contract impl; oracle = "
                       "documented routing incl. pass-through arms; exactly one handler exactly once (storage log).  non-trivial = reply whose id belongs to a name")
    res.assumptions += ["reference routing rules are those of DESIGN.md appendix A (derived from the attribute documentation)"]
    return res.finish()
