"""C10 — remote helpers build messages the target contract accepts and routes identically.

E4: builder state machines (suite `builders`).  E2: every exec / query helper of the `basic`
corpus x argument values x funds sequences x addresses x handle forms, built message fed to the
target's real entry point.
"""
import json

from . import core, e4, model, fam_basic
from .model import bare

FUNDS_SEQS = [[], [[]], [[["atom", "1"]]], [[["atom", "1"]], [["atom", "2"], ["btc", "1"]]], [[["atom", "2"], ["btc", "1"]], []]]
ADDRS = ["target0", "cosmwasm1other"]


def run_e2(res, tier, which="basic"):
    cp, info = fam_basic.corpus(tier, which)
    fam_basic.report_failed(res, cp, which)
    cases, exp = [], []
    for pid, (c, tags, names) in sorted(info.items()):
        if pid in cp.failed:
            continue
        per = {}
        for (label, disp, m) in fam_basic.handlers(c):
            if "assoc" in tags:
                m = fam_basic.concrete_method(m)   # values are drawn for the types the contract assigns to the associated types
            if m.kind in ("exec", "query"):
                per.setdefault((label, m.kind), []).append((disp, m))
        for (label, kind), ms in sorted(per.items()):
            helpers = names.get((label, "executor" if kind == "exec" else "querier"), [])
            if len(helpers) != len(ms):
                res.violation({"kind": "helpers", "pid": pid, "what": "%s: %s has %d %s helper methods for %d handlers" % (pid, label, len(helpers), kind, len(ms))})
                continue
            vias = ["concrete"] if label == "contract" else ["dyn", "impl"]
            for (disp, m), (fn, nargs) in zip(ms, helpers):
                tups = fam_basic.value_tuples(m)
                tups = tups if (tier == "thorough" or "types" in tags) else tups[:2]
                for ti, tup in enumerate(tups):
                    for via in vias:
                        combos = [(ADDRS[0], FUNDS_SEQS[0], False)]
                        if ti == 0:
                            combos = [(a, fs, b) for a in ADDRS for fs in FUNDS_SEQS for b in (False, True)]
                            if tier == "quick" and "names_in" not in tags and "types" not in tags:
                                combos = combos[::3]
                        for addr, fs, borrowed in combos:
                            if kind == "query" and fs:
                                continue
                            ctx = dict(fam_basic.CONTEXTS[1], addr=addr, funds_seq=fs)
                            cases.append({"prog": pid, "op": "remote_exec" if kind == "exec" else "remote_query", "part": label, "input": json.dumps(list(tup)),
                                          "ctx": ctx, "extra": {"fn": fn, "via": via, "borrowed": borrowed}})
                            exp.append((pid, label, disp, m, tup, addr, fs, via, borrowed))
                            if kind == "query" and ti == 0 and addr == ADDRS[0]:
                                # the same query issued from a chain whose custom query type differs from the target's
                                cases.append({"prog": pid, "op": "remote_query", "part": label, "input": json.dumps(list(tup)),
                                              "ctx": ctx, "extra": {"fn": fn, "via": via, "borrowed": borrowed, "foreign": True}})
                                exp.append((pid, label, disp, m, tup, addr, fs, via, borrowed))
    # instantiate builders of the corpus contracts: argument tuples x setter sequences x salted / unsalted
    SETTERS = [[], ["label:L"], ["admin:adm"], ["funds:2"], ["label:L", "admin:adm", "funds:2"], ["funds:2", "admin:adm"], ["label:A", "label:B"], ["admin:x", "funds:1", "funds:3"]]
    icases, iexp = [], []
    for pid, (c, tags, names) in sorted(info.items()):
        if pid in cp.failed or c.generics or ("contract", "inst_builder") not in names:
            continue
        m = next(x for x in c.methods if x.kind == "instantiate")
        tups = fam_basic.value_tuples(m)
        for ti, tup in enumerate(tups[:4] if tier == "quick" else tups):
            for st in (SETTERS if ti == 0 else SETTERS[:1]):
                for salt in (None, "s1"):
                    for code_id in ((1, 18446744073709551615) if ti == 0 and not st else (7,)):
                        icases.append({"prog": pid, "op": "inst_builder", "input": json.dumps(list(tup)), "extra": {"code_id": code_id, "setters": st, "salt": salt}})
                        iexp.append((pid, m, tup, st, salt, code_id))
    iobs = cp.run_cases(icases)
    i2, iback = [], []
    for n, (case, e, o) in enumerate(zip(icases, iexp, iobs)):
        pid, m, tup, st, salt, code_id = e
        res.add(states=1, transitions=1, traces=1, evaluations=1)
        res.mark_nontrivial("ib|%s|%s|%s|%s|%s" % (pid, tup, st, salt, code_id))

        def ibad(what, cls):
            res.violation({"kind": "inst_builder", "cls": cls, "pid": pid, "args": list(tup), "setters": st, "salt": salt, "code_id": code_id, "obs": o,
                           "what": "%s instantiate builder (args %s, setters %s, salt %s): %s" % (pid, list(tup), st, salt, what)})
        if o is None or o.get("res") != "ok" or "panic" in o:
            ibad("builder failed: %s" % o, "failed")
            continue
        want = {"label": "", "admin": None, "funds": []}
        for x in st:
            k, v = x.split(":")
            want[k] = v if k != "funds" else [["atom", v]]
        if o["variant"] != ("instantiate2" if salt else "instantiate") or o.get("salt") != salt:
            ibad("built %s with salt %s" % (o["variant"], o.get("salt")), "salted_form")
        if o["code_id"] != code_id:
            ibad("code id %s, expected %s" % (o["code_id"], code_id), "code_id")
        for k in ("label", "admin", "funds"):
            if o[k] != want[k]:
                ibad("%s is %s, builder was given %s" % (k, o[k], want[k]), k)
        if o["msg"] != model.canon_json(fam_basic.doc(m, tup)):
            ibad("arguments encoded as %s, the instantiate message is %s" % (o["msg"], model.canon_json(fam_basic.doc(m, tup))), "arguments")
        i2.append({"prog": pid, "op": "ep", "kind": "instantiate", "input": o["msg"], "ctx": fam_basic.CONTEXTS[1]})
        iback.append(n)
    for n, o2 in zip(iback, cp.run_cases(i2)):
        pid, m, tup, st, salt, code_id = iexp[n]
        res.add(transitions=1, traces=1)
        ok = o2 is not None and o2.get("res") == "ok"
        if ok:
            got = json.loads(o2["resp"]["attributes"][0]["value"])
            ok = got["args"] == fam_basic.expected_echo(c.name, m, tup, fam_basic.CONTEXTS[1])["args"]
        if not ok:
            res.violation({"kind": "inst_builder", "cls": "target_rejects", "pid": pid, "args": list(tup),
                           "what": "%s: the target's instantiate entry point does not accept the builder's body with equal arguments: %s" % (pid, o2)})
    res.parts["instantiate_builder_cases"] = len(icases)
    obs = cp.run_cases(cases)
    # phase 2: feed every built execute body to the target's execute entry point
    cases2, back = [], []
    for n, (case, e, o) in enumerate(zip(cases, exp, obs)):
        if o is None:
            continue
        if case["op"] == "remote_exec" and o.get("res") == "ok" and o.get("variant") == "execute":
            cases2.append({"prog": case["prog"], "op": "ep", "kind": "exec", "input": o["msg"], "ctx": fam_basic.CONTEXTS[1]})
            back.append(n)
    obs2 = dict(zip(back, cp.run_cases(cases2)))
    for n, (case, e, o) in enumerate(zip(cases, exp, obs)):
        if o is None:
            continue
        pid, label, disp, m, tup, addr, fs, via, borrowed = e
        res.add(states=1, transitions=1, traces=1, evaluations=1)
        h = "%s::%s" % (disp, bare(m.name))
        res.mark_nontrivial("%s|%s|%s|%s|%s|%s|%s" % (pid, h, tup, addr, fs, via, borrowed))

        def bad(what, cls):
            res.violation({"kind": "remote", "cls": cls, "pid": pid, "handler": h, "via": via, "borrowed": borrowed, "addr": addr, "funds_seq": fs, "native_128": any(model.has_wide_int(x) for x in tup) or any(a.ty in ("u128", "i128") for a in m.args),
                           "args": list(tup), "obs": o, "what": "%s %s via %s handle: %s" % (pid, h, via, what)})
        if "panic" in o:
            bad("panic: %s" % o["panic"], "panic")
            continue
        want_echo = fam_basic.expected_echo(disp, m, tup, fam_basic.CONTEXTS[1])
        if case["op"] == "remote_exec":
            if o.get("res") != "ok" or o.get("variant") != "execute":
                bad("helper did not build a wasm execute message: %s" % o, "not_execute")
                continue
            if o["contract_addr"] != addr:
                bad("message addressed to %s, handle points to %s" % (o["contract_addr"], addr), "address")
            want_funds = fs[-1] if fs else []
            if o["funds"] != want_funds:
                bad("message carries funds %s, builder was given %s" % (o["funds"], want_funds), "funds")
            o2 = obs2.get(n)
            res.add(transitions=1, traces=1)
            if o2 is None or o2.get("res") != "ok":
                bad("target's execute entry point does not accept/route the body %s: %s" % (o["msg"], o2), "target_rejects")
                continue
            try:
                got = json.loads(o2["resp"]["attributes"][0]["value"])
            except Exception:
                bad("unreadable echo %s" % o2, "echo")
                continue
            res.outcome(("exec", got["h"] == h))
            if got["h"] != h or got["args"] != want_echo["args"]:
                bad("target routed the body %s to %s with %s; helper was %s with %s" % (o["msg"], got["h"], got["args"], h, want_echo["args"]), "misrouted")
        else:
            seen = o.get("seen", [])
            if len(seen) != 1 or seen[0].get("addr") != addr:
                bad("helper issued queries %s, expected exactly one smart query to %s" % (seen, addr), "query_target")
                continue
            r = o.get("result", {})
            if "ok" not in r:
                bad("helper returned an error: %s (body %s)" % (r, seen[0].get("msg")), "query_result")
                continue
            if fam_basic.is_identity(m):
                res.outcome(("query_identity", r["ok"] == json.loads(tup[0])))
                if r["ok"] != json.loads(tup[0]):
                    bad("helper returned %s, the target's handler returned %s" % (json.dumps(r["ok"]), tup[0]), "query_value")
                continue
            try:
                got = json.loads(r["ok"]["echo"])
            except Exception:
                bad("helper did not return the decoded response: %s" % r, "query_decode")
                continue
            res.outcome(("query", got["h"] == h))
            if got["h"] != h or got["args"] != want_echo["args"]:
                bad("target answered from %s with %s; helper was %s with %s" % (got["h"], got["args"], h, want_echo["args"]), "misrouted")
    res.parts["e2_cases" + ("" if which == "basic" else "_" + which)] = len(cases)
    res.sample(lambda: {"case": cases[3], "built": obs[3]})


def run(tier):
    res = core.Result("C10", tier)
    out = e4.run_suite_into(res, "builders", tier)
    if out is not None:
        n = out["executor_cases"] + out["instantiate_cases"] + out["admin_cases"] + out["query_cases"]
        res.add(states=out["builder_states"], transitions=n, traces=n, evaluations=n)
        for v in out["violations"]:
            res.violation({"kind": "builders", "what": "%s: %s" % (v.get("what"), json.dumps({k: x for k, x in v.items() if k != "what"})[:500]), "case": v.get("case"), "cls": v.get("what")})
        if out["n_violations"] > len(out["violations"]):
            res.parts["builder_violations_total"] = out["n_violations"]
        res.sample(out["sample"])
        res.parts.update({"builder_depth": out["depth"], "executor_cases": out["executor_cases"], "instantiate_cases": out["instantiate_cases"],
                          "admin_cases": out["admin_cases"], "query_cases": out["query_cases"]})
    else:
        out = e4.stub()
    run_e2(res, tier)
    # interfaces with several associated types, handlers first using them in and out of declaration order (dyn and contract-typed handles)
    run_e2(res, tier, "assoc")
    res.cov["rule"] = ("E4: breadth-first over builder call sequences to depth %d: executor (2 addresses x all with_funds sequences over 3 fund values x 4 methods "
                       "incl. a dyn-interface handle x owned/borrowed), instantiate builder (all sequences over 6 setters incl. repeats x 2 argument tuples x "
                       "{build, build2 with 2 salts}), admin helpers, query helpers over a recording querier answering with the target's real query path. "
                       "E2: every exec and query helper of the `basic` corpus (contract typed, dyn Interface typed and contract-typed interface handle) x "
                       "argument tuples x funds sequences x addresses x owned/borrowed; the built body is fed to the target's real execute/query entry point and "
                       "must reach the same method with equal arguments.  non-trivial = every (helper, arguments, builder state) case" % out["depth"])
    res.assumptions += ["helper method names are read from the E1 observation of the same program (position j of the helper trait <-> j-th handler)"]
    return res.finish()
