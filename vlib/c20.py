"""C20 — a stored remote handle has a stable, type-independent encoding (E4 suite `remote`)."""
from . import core, e4


def run(tier):
    res = core.Result("C20", tier)
    out = e4.run_suite_into(res, "remote", tier)
    if out is not None:
        res.add(states=out["cases"], transitions=out["cases"] * 4, traces=out["cases"], evaluations=out["cases"])
        for i in range(out["nontrivial"]):
            res.mark_nontrivial("case%d" % i)
        for i in range(out["outcomes"]):
            res.outcome("o%d" % i)
        for v in out["violations"]:
            res.violation(dict(v, kind="remote", what="Remote<%s>: %s (%s)" % (v.get("type"), v.get("what"), {k: x for k, x in v.items() if k not in ("what", "type", "schemas")})))
        res.sample(out["sample"])
        res.parts = {"types": out["types"], "addresses": out["addresses"], "distinct_schemas": out["distinct_schemas"]}
    else:
        out = e4.stub()
    res.cov["rule"] = ("every address of {empty, 1 char, bech32, quotes/backslash/non-ASCII, control characters, upper / mixed case incl. non-ASCII, surrounding blanks, 4 kB} x every type parameter of "
                       "{concrete contract, generic contract at two instantiations, dyn Interface with two error types, dyn Interface with associated "
                       "types at two assignments, (), str, [u8]} x {owned, borrowed}: encoding == {\"addr\":<json string>} byte for byte, decodes back to "
                       "the same address, loads from storage under another parameter, schema identical for all parameters; non-trivial = non-empty address")
    res.assumptions.append("the JSON string encoding of the address itself is taken from the same encoder (cosmwasm_std::to_json_string)")
    return res.finish()
