"""C02 — dispatch runs exactly the annotated handler with the sent arguments."""
import json
import re

from . import core, model, fam_basic, c01
from .model import norm, bare

ENUMK = ["exec", "query", "sudo"]
ID = r"[\w#]+"


def find_handler_call(body):
    """The call `contract.<method>(<ctx>, <args...>)` inside a (whitespace-free) body, wherever and however it is wrapped:
    returns (method, [argument texts after the first]) or None when the body has no such call."""
    m = re.search(r"contract\.(%s)\(" % ID, body)
    if not m:
        return None
    i = m.end()
    depth, cur, args = 1, "", []
    while i < len(body) and depth:
        ch = body[i]
        if ch in "([{":
            depth += 1
        elif ch in ")]}":
            depth -= 1
            if depth == 0:
                break
        if ch == "," and depth == 1:
            args.append(cur)
            cur = ""
        else:
            cur += ch
        i += 1
    if cur:
        args.append(cur)
    if depth:
        return None
    return m.group(1), args[1:]


def parse_binds(text):
    """`a:x,b,` -> {a: x, b: b}"""
    binds = {}
    for x in text.split(","):
        if x:
            f, _, b = x.partition(":")
            binds[f] = b or f
    return binds


def check_arms(res, pid, where, o, expected, src):
    """Static reading of the generated dispatch functions.  Only what the property states is judged — which method a
    variant's arm calls and which field reaches which parameter — and it is read shape-tolerantly (the call may be wrapped,
    split over statements, use any binder names); bodies in which no call can be located are counted, not judged: the
    compiled traces of E2 are what decides."""
    def bad(what, **kw):
        v = {"kind": "arms", "pid": pid, "program": src, "what": "%s: %s" % (pid, what)}
        v.update(kw)
        res.violation(v)
    if o.get("dirty") or o.get("panic") or not o.get("out_parse_ok"):
        return  # C01 reports rejected valid programs
    name, items = model.sv_items(o)
    by_kind = {}
    for m in expected:
        by_kind.setdefault(m.kind, []).append(m)
    if where == "contract" and "instantiate" not in by_kind:
        by_kind["instantiate"] = [model.Method("instantiate", "inst", ())]
    for kind, ms in by_kind.items():
        tname = c01.type_name_for(kind, where)
        imp = [it for it in items if it.get("k") == "impl" and it.get("trait") is None and norm(it["self_ty"]).split("<")[0] == tname]
        fns = [f for i in imp for f in i["items"] if f.get("k") == "fn" and f["name"] == "dispatch"]
        if len(fns) != 1:
            bad("%s has %d dispatch functions" % (tname, len(fns)))
            continue
        f = fns[0]
        res.add(transitions=len(ms))
        if kind in ("instantiate", "migrate"):
            body = norm(f["body"])
            m = ms[0]
            sm = re.search(r"Self\{((?:%s(?::%s)?,)*)\}" % (ID, ID), body)
            call = find_handler_call(body)
            if not sm or not call:
                res.parts["arms_unparsed"] = res.parts.get("arms_unparsed", 0) + 1
                continue
            binds = parse_binds(sm.group(1))
            callee, passed = call
            want = [a.name for a in m.args]
            shadow = sorted(set(binds.values()) & {"contract", "ctx", "self"})
            if shadow:
                bad("%s dispatch binds a field to `%s`, shadowing its own parameter before the handler is called" % (tname, shadow), cls="shadow")
            if callee != m.name or sorted(binds) != sorted(want) or passed != [binds.get(x) for x in want]:
                bad("%s dispatch calls %s(%s) with bindings %s; handler is %s(%s)" % (tname, callee, passed, binds, m.name, want), cls="struct_call")
            continue
        arms = [a for a in f.get("arms", []) if norm(a["on"]) == "self" and not norm(a["pat"]).startswith("_Phantom")]
        if len(arms) != len(ms):
            bad("%s dispatch has %d arms for %d handlers" % (tname, len(arms), len(ms)))
            continue
        # arms are matched to handlers by the variant they destructure, not by position
        by_variant = {}
        for a in arms:
            pm = re.match(r"^(?:Self::)?(%s)\{((?:%s(?::%s)?,)*)\}$" % (ID, ID, ID), norm(a["pat"]))
            if pm:
                by_variant[model.serde_snake(pm.group(1))] = (pm, a)
        seen_callees = []
        for m in ms:
            # an in-shape method name is the wire name of its variant
            hit = by_variant.get(bare(m.name)) if (model.in_shape(m.name) and len(by_variant) == len(arms)) else None
            if hit is None:
                # fall back to the declaration position
                a = arms[ms.index(m)]
                pm = re.match(r"^(?:Self::)?(%s)\{((?:%s(?::%s)?,)*)\}$" % (ID, ID, ID), norm(a["pat"]))
                if not pm:
                    res.parts["arms_unparsed"] = res.parts.get("arms_unparsed", 0) + 1
                    continue
            else:
                pm, a = hit
            body = norm(a["body"])
            binds = parse_binds(pm.group(2))
            shadow = sorted(set(binds.values()) & {"contract", "ctx", "self"})
            if shadow:
                bad("arm for `%s` binds a field to `%s`, shadowing the dispatch function's own local" % (m.name, shadow), cls="shadow")
            call = find_handler_call(body)
            if not call:
                res.parts["arms_unparsed"] = res.parts.get("arms_unparsed", 0) + 1
                continue
            callee, passed = call
            seen_callees.append(callee)
            want_fields = [x.name for x in m.args]
            if callee != m.name:
                bad("arm for variant %s calls `%s`, the variant was generated from `%s`" % (pm.group(1), callee, m.name), cls="callee")
            if sorted(binds.keys()) != sorted(want_fields):
                bad("arm for `%s` binds fields %s, arguments are %s" % (m.name, sorted(binds), want_fields), cls="binds")
                continue
            want_passed = [binds[x] for x in want_fields]
            if passed != want_passed:
                bad("arm for `%s` passes %s, expected %s (fields %s in declaration order)" % (m.name, passed, want_passed, want_fields), cls="arg_order")
            if len(set(binds.values())) != len(binds):
                bad("arm for `%s` binds two fields to one variable: %s" % (m.name, binds), cls="binds")
            if kind == "query" and "to_json_binary" not in body:
                bad("arm for query `%s` does not encode the handler's answer (no to_json_binary in %s)" % (m.name, a["body"]), cls="query_encoding")
        if len(set(seen_callees)) != len(seen_callees):
            bad("two arms of %s call the same handler: %s" % (tname, seen_callees), cls="callee")


def run_e1(res, tier):
    progs = list(c01.e1_programs(tier))
    recs, meta = [], {}
    for pid, where, obj, expected in progs:
        r = model.e1_contract_record(pid, obj, want="items,bodies=dispatch") if where == "contract" else model.e1_interface_record(pid, obj, want="items,bodies=dispatch")
        recs.append(r)
        meta[pid] = (where, expected, r["item"])
    obs = core.e1_run(recs, "c02-" + tier)
    for o in obs:
        where, expected, src = meta[o["id"]]
        res.add(states=1, evaluations=1)
        res.mark_nontrivial("e1:" + o["id"])
        check_arms(res, o["id"], where, o, expected, src)
    res.parts["e1_programs"] = len(progs)


def std_err_text(h):
    return "Generic error: fail:%s" % h


def expected_error(c, label, disp, m):
    h = "%s::%s" % (disp, bare(m.name))
    if c.error == "ContractError":
        if label == "contract" and m.err == "own":
            return "ContractError::Handler(%s)" % h
        return "ContractError::Std(%s)" % std_err_text(h)
    return std_err_text(h)


def run_e2(res, tier):
    cp, info = fam_basic.corpus(tier)
    fam_basic.report_failed(res, cp)
    cases, exp = [], []
    for pid, (c, tags, names) in sorted(info.items()):
        if pid in cp.failed:
            continue
        for (label, disp, m) in fam_basic.handlers(c):
            tups = fam_basic.value_tuples(m)
            plan = [(t, fam_basic.CONTEXTS[0]) for t in tups]
            plan += [(tups[0], cx) for cx in fam_basic.CONTEXTS[1:] + fam_basic.FAIL_CONTEXTS]
            if tier == "thorough":
                plan += [(t, cx) for t in tups[1:3] for cx in fam_basic.CONTEXTS[1:] + fam_basic.FAIL_CONTEXTS]
            routes = ["wrapper"] if m.kind in ENUMK else ["contract"]
            if m.kind in ENUMK and label == "contract":
                routes.append("contract")
            for tup, cx in plan:
                d = fam_basic.doc(m, tup)
                for route in routes:
                    cases.append({"prog": pid, "op": "dispatch", "kind": m.kind, "part": route, "input": d, "ctx": cx})
                    exp.append((pid, c, label, disp, m, tup, cx, route, d))
    obs = cp.run_cases(cases)
    for case, e, o in zip(cases, exp, obs):
        if o is None:
            continue
        pid, c, label, disp, m, tup, cx, route, d = e
        res.add(states=1, transitions=1, traces=1, evaluations=1)
        shape_ok = m.kind in ("instantiate", "migrate") or model.in_shape(m.name)
        h = "%s::%s" % (disp, bare(m.name))

        def bad(what, cls):
            res.violation({"kind": "behaviour", "cls": cls, "pid": pid, "part": label, "route": route, "method": m.name, "mkind": m.kind,
                           "doc": d, "ctx": cx, "obs": o, "in_shape": shape_ok, "what": "%s %s (%s via %s): %s" % (pid, h, m.kind, route, what)})
        if "panic" in o:
            bad("panic: %s" % o["panic"], "panic")
            continue
        if o.get("res") == "decode_err":
            if shape_ok and not (route == "wrapper"):
                bad("document %s not decodable: %s" % (d, o.get("err")), "decode")
            else:
                # wrapper-level decoding is C03's subject; C02 only records the lost route
                res.outcome("wrapper_decode_err")
                res.parts["wrapper_routes_lost"] = res.parts.get("wrapper_routes_lost", 0) + 1
            continue
        res.mark_nontrivial("%s|%s|%s|%s" % (pid, h, d, json.dumps(cx, sort_keys=True)))
        failing = "fail" in cx["storage"] and not fam_basic.is_identity(m)
        want_storage = dict(cx["storage"])
        if m.kind != "query":
            want_storage["touched:" + h] = "1"
            want_storage["log"] = h + ";"
        if o.get("storage") != want_storage:
            bad("storage after dispatch is %s, expected %s (exactly this handler, exactly once, on the caller's storage)" % (o.get("storage"), want_storage), "storage")
        want_echo = fam_basic.expected_echo(disp, m, tup, cx)
        if failing:
            res.outcome("err")
            if o.get("res") != "err":
                bad("handler failed but dispatch returned %s" % o.get("res"), "outcome")
            elif o.get("err") != expected_error(c, label, disp, m):
                bad("caller receives error `%s`, handler returned `%s`" % (o.get("err"), expected_error(c, label, disp, m)), "error_value")
            continue
        if o.get("res") != "ok":
            bad("handler succeeded but dispatch returned error %s" % o.get("err"), "outcome")
            continue
        res.outcome("ok")
        if fam_basic.is_identity(m):
            # the handler returns its argument: the payload must be the JSON encoding of that value
            if o.get("bin") != model.canon_json(tup[0]):
                bad("query payload `%s` is not the JSON encoding of the returned value %s" % (o.get("bin"), model.canon_json(tup[0])), "query_payload")
            continue
        if m.kind == "query":
            try:
                got = json.loads(json.loads(o["bin"])["echo"])
                extra = set(json.loads(o["bin"]).keys()) - {"echo"}
            except Exception as ex:
                bad("query payload is not the JSON encoding of the returned value: %r" % o.get("bin"), "query_payload")
                continue
            if extra:
                bad("query payload has extra members %s" % extra, "query_payload")
        else:
            resp = o["resp"]
            attrs = resp.get("attributes", [])
            if resp.get("messages") or resp.get("events") or resp.get("data") is not None or len(attrs) != 1 or attrs[0].get("key") != "echo":
                bad("response was altered: %s" % json.dumps(resp)[:300], "response")
                continue
            got = json.loads(attrs[0]["value"])
        if got != want_echo:
            diff = {k: (got.get(k), want_echo.get(k)) for k in want_echo if got.get(k) != want_echo.get(k)}
            bad("echo differs (got, want): %s" % diff, "echo:" + ",".join(sorted(diff)))
    res.parts["e2_cases"] = len(cases)
    res.parts["e2_programs"] = len(info)
    res.sample(lambda: {"e2_case": cases[11], "observation": obs[11]})


def run(tier):
    res = core.Result("C02", tier)
    run_e1(res, tier)
    run_e2(res, tier)
    # contracts using chain-custom types with bridged interfaces are contracts too: the same
    # "handler's own outcome, untouched" oracle on the custom family (shared with C11)
    from . import c11
    c11.run_e2(res, tier)
    res.cov["rule"] = ("E1: for every program of the C01 grammar, every arm of every generated `dispatch` (variant -> callee, field binders -> "
                       "argument positions, one arm per variant).  E2: every handler of every kind of the `basic` corpus x every tuple of alphabet "
                       "values in a base context, plus the first tuples x 3 further contexts (sender, funds, height, contract address, storage probe, "
                       "api prefix, querier balance all varied) x {Ok, Err via storage flag}, dispatched through the contract-level wrapper and the "
                       "part's own message type; oracle = model echo record, exact response, exact error value, exact storage delta. "
                       "The custom family (contracts with chain-custom types and bridged interfaces returning rich responses) is replayed with the same oracle against native twins. "
                       "non-trivial = (program, handler, document, context) reaching a handler")
    res.assumptions += ["echo handlers observe api via addr_validate of a cosmwasm-prefixed address and the querier via a bank balance, both "
                        "seeded differently per context",
                        "error values are compared through their Display text"]
    return res.finish()
