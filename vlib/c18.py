"""C18 — programs violating the documented constraints are rejected with a diagnostic.

E1: accept/reject for one-edit rule breakers at every position and for *all* small reply tables.
E3: real rustc diagnostics (key phrase, location inside the marked region) for representatives.
"""
import itertools
import json
import re
from dataclasses import replace

from . import core, model, e2, fam_reply
from .model import Method, Arg, Contract, Interface
from .fam_reply import RM

RAWP = Arg("payload", "Binary", ("#[sv::payload(raw)]",))


def base_methods():
    return [Method("instantiate", "inst", (Arg("a", "u32"),)),
            Method("exec", "e0", (Arg("a", "u32"),)),
            Method("query", "q0", (), qret="u32"),
            Method("sudo", "s0", ()),
            Method("migrate", "mig", ()),
            Method("reply", "r_s", (Arg("data", "Option<Binary>", ("#[sv::data(raw, opt)]",)), RAWP), msg_params=", handlers=[hx], reply_on=success"),
            Method("reply", "r_e", (Arg("error", "String"), RAWP), msg_params=", handlers=[hx], reply_on=error")]


def base_contract(**kw):
    d = dict(methods=tuple(base_methods()), features="replies")
    d.update(kw)
    return Contract(**d)


def base_iface(**kw):
    d = dict(name="If", module="ifc", custom="msg=Empty, query=Empty",
             methods=(Method("exec", "e0", (Arg("a", "u32"),)), Method("query", "q0", (), qret="u32"), Method("sudo", "s0", ())))
    d.update(kw)
    return Interface(**d)


def with_method(c, idx, m):
    ms = list(c.methods)
    ms[idx] = m
    return replace(c, methods=tuple(ms))


def rule_breakers(tier):
    """[(pid, mac, obj, reject, phrase, snippet)] — snippet is a text fragment of the offending place."""
    out = []
    B = base_contract()
    ms = base_methods()

    def add(pid, obj, phrase, snippet, mac="contract", reject=True):
        out.append((pid, mac, obj, reject, phrase, snippet))

    add("ok_base", B, None, None, reject=False)
    add("ok_iface", base_iface(), None, None, mac="interface", reject=False)
    # instantiate count / constructor
    add("no_instantiate", replace(B, methods=tuple(ms[1:])), "Missing instantiation message", "impl Ct")
    for pos in (1, 3, 7):
        m2 = list(ms)
        m2.insert(pos, Method("instantiate", "inst2", (Arg("b", "u32"),)))
        add("two_instantiate_%d" % pos, replace(B, methods=tuple(m2)), "More than one instantiation or migration message", "fn inst")
    for pos in (0, 5, 7):
        m2 = list(ms)
        m2.insert(pos, Method("migrate", "mig2", ()))
        add("two_migrate_%d" % pos, replace(B, methods=tuple(m2)), "More than one instantiation or migration message", "fn mig")
    add("no_new", replace(B, new=""), "Missing `new` method", "impl Ct")
    add("new_with_params", replace(B, new="pub fn new(x: u32) -> Self { Self }"), "Parameters not allowed in `new` method", "fn new(x: u32)")
    # interface rules
    I = base_iface()
    for pos in (0, 1, 3):
        im = list(I.methods)
        im.insert(pos, Method("instantiate", "inst", ()))
        add("iface_instantiate_%d" % pos, replace(I, methods=tuple(im)), "`instantiate` is not supported in interfaces", "fn inst", mac="interface")
        im = list(I.methods)
        im.insert(pos, Method("migrate", "mig", ()))
        add("iface_migrate_%d" % pos, replace(I, methods=tuple(im)), "`migrate` is not supported in interfaces", "fn mig", mac="interface")
    add("iface_generics", replace(I, generics="<T>"), "Generics on traits are not supported", "trait If<T>", mac="interface")
    add("iface_no_error", replace(I, no_error=True), "Missing `Error` type", "trait If", mac="interface")
    # data / payload markers (reply handlers sit at indices 5 and 6)
    add("data_not_first", with_method(B, 5, replace(ms[5], args=(RAWP, Arg("data", "Option<Binary>", ("#[sv::data(raw, opt)]",))))), "Wrong usage of `#[sv::data]`", "fn r_s")
    add("data_second_typed", replace(B, methods=tuple(ms[:5] + [Method("reply", "r_x", (Arg("p0", "u32"), Arg("data", "Binary", ("#[sv::data(raw)]",))), msg_params=", reply_on=success")])),
        "Wrong usage of `#[sv::data]`", "fn r_x")
    add("data_on_error", with_method(B, 6, replace(ms[6], args=(Arg("error", "String", ("#[sv::data(raw)]",)), RAWP))), "Wrong usage of `#[sv::data]`", "fn r_e")
    add("data_on_always", replace(B, methods=tuple(ms[:5] + [Method("reply", "r_a", (Arg("result", "SubMsgResult", ("#[sv::data(raw)]",)), RAWP))])), "Wrong usage of `#[sv::data]`", "fn r_a")
    add("payload_no_param", with_method(B, 6, replace(ms[6], args=(Arg("error", "String"), Arg("payload", "Binary", ("#[sv::payload]",))))), "Missing parameters for `sv::payload`", "fn r_e")
    add("payload_bad_param", with_method(B, 6, replace(ms[6], args=(Arg("error", "String"), Arg("payload", "Binary", ("#[sv::payload(json)]",))))), "Invalid payload parameter", "fn r_e")
    add("payload_extra_tokens", with_method(B, 6, replace(ms[6], args=(Arg("error", "String"), Arg("payload", "Binary", ("#[sv::payload(raw, opt)]",))))), "Unexpected tokens inside `sv::payload`", "fn r_e")
    add("param_after_raw_payload", with_method(B, 6, replace(ms[6], args=(Arg("error", "String"), RAWP, Arg("extra", "u32")))), "Redundant payload parameter", "fn r_e")
    add("param_between_data_and_payload", with_method(B, 5, replace(ms[5], args=(ms[5].args[0], Arg("mid", "u32"), RAWP))), "Redundant payload parameter", "fn r_s")
    add("no_payload_success", with_method(B, 5, replace(ms[5], args=(ms[5].args[0],))), "Missing payload parameter", "fn r_s")
    add("no_payload_error", replace(B, methods=tuple(ms[:5] + [Method("reply", "r_e2", (Arg("error", "String"),), msg_params=", reply_on=error")])), "Missing payload parameter", "fn r_e2")
    add("data_raw_with_instantiate", with_method(B, 5, replace(ms[5], args=(Arg("data", "Binary", ("#[sv::data(raw, instantiate)]",)), RAWP))), "cannot be used in pair with `raw`", "fn r_s")
    add("data_unknown_param", with_method(B, 5, replace(ms[5], args=(Arg("data", "Binary", ("#[sv::data(json)]",)), RAWP))), "Invalid data parameter", "fn r_s")
    # sv::msg attribute: unknown kind / argument / reply_on at every method position
    for idx in (1, 2, 3):
        m = ms[idx]
        add("msg_unknown_kind_%d" % idx, with_method(B, idx, UnknownKind(m)),
            "Invalid message type", "fn " + m.name)
        add("msg_unknown_arg_%d" % idx, with_method(B, idx, replace(m, msg_params=", foo=bar")), "Invalid argument type", "fn " + m.name)
    add("reply_on_unknown", with_method(B, 6, replace(ms[6], msg_params=", handlers=[hx], reply_on=failure")), "expected one of `success`, `error` or `always`", "fn r_e")
    add("msg_twice", with_method(B, 1, replace(ms[1], sv_attrs=("#[sv::msg(exec)]",))), "The attribute `sv::msg` is redefined", "fn e0")
    # attributes on the impl
    add("features_unknown", replace(B, features="replies, turbo"), "Invalid feature", "sv::features")
    add("custom_unknown", replace(B, custom="message=Empty"), "Invalid custom type", "sv::custom")
    add("custom_twice", replace(B, raw_attrs=("#[sv::custom(msg=Empty)]", "#[sv::custom(query=Empty)]")), "The attribute `sv::custom` is redefined", "sv::custom")
    add("error_twice", replace(B, raw_attrs=("#[sv::error(StdError)]", "#[sv::error(StdError)]")), "The attribute `sv::error` is redefined", "sv::error")
    add("messages_trailing", replace(B, raw_attrs=("#[sv::messages(ifc as Ifc : custom(msg) extra)]",)), "Unexpected tokens inside `sv::messages`", "sv::messages")
    add("messages_bad_custom", replace(B, raw_attrs=("#[sv::messages(ifc : custom(message))]",)), "Invalid custom attribute", "sv::messages")
    add("msg_attr_no_attr", replace(B, raw_attrs=("#[sv::msg_attr(exec)]",)), "Expected attribute of the form", "sv::msg_attr")
    add("msg_attr_bad_kind", replace(B, raw_attrs=("#[sv::msg_attr(execute, derive(Eq))]",)), "Invalid message type", "sv::msg_attr")
    add("override_bad_kind", replace(B, raw_attrs=("#[sv::override_entry_point(execute=crate::ep(crate::M))]",)), "Invalid entry point", "sv::override_entry_point")
    add("override_no_msg", replace(B, raw_attrs=("#[sv::override_entry_point(exec=crate::ep)]",)), None, "sv::override_entry_point")
    add("attr_on_instantiate", with_method(B, 0, replace(ms[0], sv_attrs=("#[sv::attr(serde(rename = \"x\"))]",))), "`sv::attr` is not supported for `instantiate`", "fn inst")
    add("attr_on_migrate", with_method(B, 4, replace(ms[4], sv_attrs=("#[sv::attr(serde(rename = \"x\"))]",))), "`sv::attr` is not supported for `migrate`", "fn mig")
    # parameters
    for idx in (1, 3):
        m = ms[idx]
        add("sv_attr_on_ctx_%d" % idx, with_method(B, idx, replace(m, ctx_attrs=("#[sv::payload(raw)]",))), "Invalid usage of Sylvia attribute", "fn " + m.name)
        add("sv_attr_on_self_%d" % idx, with_method(B, idx, replace(m, self_attrs=("#[sv::data(raw)]",))), "Invalid usage of Sylvia attribute", "fn " + m.name)
    add("pattern_argument", with_method(B, 1, replace(ms[1], raw_sig=", (x, y): (u32, u32)")), "Expected argument name, pattern occurred", "fn e0")
    # entry_points generics
    G = replace(B, generics=(("A", ""), ("B", "")), where=("A: 'static", "B: 'static"), new="pub fn new() -> Self { Self { _p: std::marker::PhantomData } }")
    add("ep_generics_ok", replace(G, entry_points="generics<u32, u64>"), None, None, mac="entry_points", reject=False)
    add("ep_generics_too_few", replace(G, entry_points="generics<u32>"), "Missing concrete types", "entry_points", mac="entry_points")
    add("ep_generics_none", replace(G, entry_points=""), "Missing concrete types", "entry_points", mac="entry_points")
    add("ep_generics_too_many", replace(G, entry_points="generics<u32, u64, u8>"), "Missing concrete types", "entry_points", mac="entry_points")
    add("ep_bad_arg", replace(B, entry_points="generic<u32>"), "Expected `generics`", "entry_points", mac="entry_points")
    add("ep_no_instantiate", replace(B, methods=tuple(ms[1:]), entry_points=""), "Missing instantiation message", "entry_points", mac="entry_points")
    return out


class UnknownKind:
    """Marker: a method whose sv::msg kind is not one of the six."""
    def __init__(self, m):
        self.m = m


def render_record(pid, mac, obj):
    # resolve UnknownKind placeholders
    if isinstance(obj, Contract):
        ms = []
        for m in obj.methods:
            if isinstance(m, UnknownKind):
                text = model.render_method(m.m, "contract", "Ct", "stub").replace("#[sv::msg(%s" % m.m.kind, "#[sv::msg(execute", 1)
                ms.append(("raw", text))
            else:
                ms.append(("m", m))
        if any(k == "raw" for k, _ in ms):
            real = tuple(m for k, m in ms if k == "m")
            extra = tuple(t for k, t in ms if k == "raw")
            obj = replace(obj, methods=real, extra_items=obj.extra_items + extra)
    if mac == "interface":
        return model.e1_interface_record(pid, obj)
    if mac == "entry_points":
        return model.e1_entry_points_record(pid, obj)
    return model.e1_contract_record(pid, obj)


# ---------------------------------------------------------------------------------------------
# (b) all reply tables, valid or not, with payload variations on merged pairs

def reply_tables(tier):
    n = 2 if tier == "quick" else 3
    for tab in fam_reply.tables(n):
        yield ("t:" + "|".join("%s/%s" % (",".join(r.handlers) if r.handlers else "-", r.on or "-") for r in tab), tab)
    # payload signature variations on a success/error pair and on unrelated names
    sigs = [("raw",), ("u32",), ("u32", "String"), ("String",), ("u32", "u32")]
    for s1, s2 in itertools.product(sigs, repeat=2):
        for shared in (True, False):
            for first in ("success", "error"):
                second = "error" if first == "success" else "success"
                tab = (RM(fn="r0", handlers=("h",), on=first, payload=s1), RM(fn="r1", handlers=("h",) if shared else ("g",), on=second, payload=s2))
                yield ("p:%s:%s:%s:%s" % ("+".join(s1), "+".join(s2), shared, first), tab)
    for tab in [(RM(fn="r0", handlers=("h", "h"), on="success"),), (RM(fn="r0", handlers=("h",), on="success"), RM(fn="r1", handlers=("g", "h"), on="success"))]:
        yield ("dup:" + str(len(tab)), tab)
    # three and four methods claiming outcomes of ONE name: a third claim after a legal success/error pair is still a duplicate
    if n < 3:
        for k in (3, 4):
            for ons in itertools.product(("success", "error", "always", None), repeat=k):
                if k == 4 and (None in ons or "always" in ons):
                    continue
                tab = tuple(RM(fn="r%d" % j, handlers=("h",), on=o) for j, o in enumerate(ons))
                yield ("one:%s" % "/".join(o or "-" for o in ons), tab)


def rejected(o):
    return bool(o.get("dirty") or o.get("has_compile_error") or o.get("panic"))


def run_e1(res, tier):
    breakers = rule_breakers(tier)
    recs, meta = [], {}
    for pid, mac, obj, reject, phrase, snippet in breakers:
        r = render_record(pid, mac, obj)
        recs.append(r)
        meta[pid] = ("rule", reject, phrase, r)
    for pid, tab in reply_tables(tier):
        valid, why, names = fam_reply.table_model(tab)
        c = fam_reply.contract_of(tab, entry_points=None)
        r = model.e1_contract_record(pid, c)
        recs.append(r)
        meta[pid] = ("table", not valid, why, r)
    obs = core.e1_run(recs, "c18-" + tier)
    for o in obs:
        fam, reject, why, r = meta[o["id"]]
        res.add(states=1, transitions=1, evaluations=1)
        got = rejected(o)
        res.outcome((fam, reject, got, bool(o.get("panic"))))
        if reject:
            res.mark_nontrivial("e1:" + o["id"])
        if reject and not got:
            res.violation({"kind": "accept", "cls": "rule_breaker_accepted", "family": fam, "pid": o["id"], "program": r["item"], "rule": why,
                           "what": "%s: breaks a documented rule (%s) but the macro accepts it" % (o["id"], why)})
        elif not reject and got:
            res.violation({"kind": "accept", "cls": "valid_rejected", "family": fam, "pid": o["id"], "program": r["item"],
                           "what": "%s: valid program rejected (dirty=%s panic=%s compile_error=%s)" % (o["id"], o.get("dirty"), o.get("panic"), o.get("has_compile_error"))})
        elif reject and o.get("panic"):
            res.violation({"kind": "accept", "cls": "panic_instead_of_diagnostic", "family": fam, "pid": o["id"], "program": r["item"], "panic": o["panic"],
                           "what": "%s: rule breaker makes the macro panic (%s) instead of emitting a diagnostic at the offence" % (o["id"], o["panic"])})
    res.parts["e1_rule_breakers"] = len(breakers)
    res.parts["e1_reply_tables"] = len(recs) - len(breakers)
    return breakers


def run_e3(res, tier, breakers):
    cp = e2.Corpus("reject-" + tier)
    glue = "pub struct Subj;\nimpl vsupport::Subject for Subj { fn run(&self, c: &vsupport::Case) -> vsupport::Obs { json!({}) } }\n"
    sel = []
    for pid, mac, obj, reject, phrase, snippet in breakers:
        if mac == "interface":
            i = obj
            c = Contract(methods=(Method("instantiate", "inst", ()),))
            text = e2.PRELUDE.format(fw="sylvia") + "\npub mod ifc {\n    use super::*;\n    #[sylvia::interface]\n    %s\n}\n" % "\n    ".join(
                model.render_interface(i, "stub")[0] + [model.render_interface(i, "stub")[1]]) + "\n" + glue
        else:
            c = obj
            if mac == "entry_points" and c.entry_points is None:
                c = replace(c, entry_points="")
            if mac != "entry_points":
                c = replace(c, entry_points=None)
            r = render_record(pid, "contract", c)
            attrs_item = r["item"]
            macro_lines = []
            if c.entry_points is not None:
                macro_lines.append("#[sylvia::entry_points%s]" % (("(" + c.entry_points + ")") if c.entry_points else ""))
            macro_lines.append("#[sylvia::contract]")
            struct = "pub struct Ct%s;" % ("<A, B> { _p: std::marker::PhantomData<(A, B)> }".replace(";", "") if c.generics else "")
            if c.generics:
                struct = "pub struct Ct<A, B> { _p: std::marker::PhantomData<(A, B)> }"
            text = e2.PRELUDE.format(fw="sylvia") + "\npub mod ifc { }\n" + struct + "\n" + "\n".join(macro_lines) + "\n" + attrs_item + "\n" + glue
        text = text.replace("{ todo!() }", "{ todo!() }")
        spid = "x_" + re.sub(r"[^a-z0-9_]", "_", pid.lower())
        cp.add(spid, text)
        sel.append((spid, pid, reject, phrase, snippet, text))
    cp.write()
    cp.build(check_only=True)
    for spid, pid, reject, phrase, snippet, text in sel:
        res.add(states=1, transitions=1, traces=1, evaluations=1)
        failed = spid in cp.failed
        res.outcome(("e3", reject, failed))
        if reject:
            res.mark_nontrivial("e3:" + pid)
        if reject and not failed:
            res.violation({"kind": "diag", "cls": "rule_breaker_compiles", "pid": pid, "program": text, "what": "%s: rule-breaking program compiles" % pid})
            continue
        if not reject:
            if failed:
                res.violation({"kind": "diag", "cls": "control_rejected", "pid": pid, "program": text, "diags": cp.failed[spid][:3],
                               "what": "%s: control program does not compile: %s" % (pid, cp.failed[spid][0]["message"])})
            continue
        diags = cp.failed[spid]
        lines = text.split("\n")
        lo = hi = None
        if snippet:
            hits = [n + 1 for n, l in enumerate(lines) if snippet in l]
            if hits:
                # region: from two lines above the first hit (attributes) to the end of the item on that line
                lo, hi = min(hits) - 3, max(hits) + 1
                if snippet.startswith(("impl ", "trait ")):
                    hi = len(lines)
                if snippet == "entry_points":
                    lo, hi = min(hits), min(hits) + 2
        good = []
        for d in diags:
            in_region = lo is None or any(lo <= ln <= hi for ln in d["lines"])
            has_phrase = phrase is None or phrase in (d.get("rendered") or "") or phrase in (d.get("message") or "")
            if in_region and has_phrase:
                good.append(d)
        if not good:
            res.violation({"kind": "diag", "cls": "diagnostic_missing_or_misplaced", "pid": pid, "program": text, "phrase": phrase, "region": [lo, hi],
                           "diags": [{"message": d["message"], "lines": d["lines"]} for d in diags[:5]],
                           "what": "%s: rejected, but no error with phrase `%s` inside lines %s..%s; got %s" % (
                               pid, phrase, lo, hi, [(d["message"][:80], d["lines"]) for d in diags[:4]])})
    res.parts["e3_programs"] = len(sel)


def run(tier):
    res = core.Result("C18", tier)
    breakers = run_e1(res, tier)
    run_e3(res, tier, breakers)
    res.sample({"rule_breaker": "param_after_raw_payload", "program": render_record("x", "contract", [b for b in breakers if b[0] == "param_after_raw_payload"][0][2])["item"]})
    res.cov["rule"] = ("(a) one-edit rule breakers of a valid 7-method contract / 3-method interface, one family per documented rule (instantiate count, constructor, "
                       "instantiate/migrate/generics/Error in interfaces, sv::data and sv::payload placement and parameters, sv::msg kind/argument/reply_on, "
                       "unknown sv::features/custom/data arguments, malformed messages/msg_attr/override_entry_point, sv::attr on struct messages, sylvia "
                       "attributes on self/ctx, pattern arguments, entry_points generics arity), each at every position where it can be placed, plus controls; "
                       "(b) every reply table of <= %d methods over handlers {absent,[h],[g],[h,g]} x reply_on {success,error,always,absent}, all 25 payload-signature "
                       "pairs on merged / separate names in both orders, duplicate names.  E1: rejected <=> the model's rule is broken (and never by a panic). "
                       "E3: every rule breaker compiled: error with the rule's key phrase located inside the offending region; controls compile. "
                       "non-trivial = program the model rejects" % (2 if tier == "quick" else 3))
    res.assumptions += ["diagnostic wording is checked by key phrase only", "the region is the offending method / attribute / item header with two lines of slack for stacked attributes"]
    return res.finish()
