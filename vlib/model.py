"""Reference model M: program AST, Rust renderer, wire-name rule, alphabets.

The model states only what the properties state.  Identifiers the macro invents (variant idents,
helper method names) are read from E1 observations, never predicted here, except where a property
pins them (C01: wire name == method name for names of the N_in shape).
"""
from dataclasses import dataclass, field, replace
import itertools
import json
import re

KINDS = ["instantiate", "exec", "query", "sudo", "migrate", "reply"]
ENUM_KINDS = ["exec", "query", "sudo"]
CTX = {"instantiate": "InstantiateCtx", "exec": "ExecCtx", "query": "QueryCtx", "sudo": "SudoCtx",
       "migrate": "MigrateCtx", "reply": "ReplyCtx"}
MSG_NAME = {"instantiate": "InstantiateMsg", "exec": "ExecMsg", "query": "QueryMsg", "sudo": "SudoMsg",
            "migrate": "MigrateMsg"}
WRAPPER = {"exec": "ContractExecMsg", "query": "ContractQueryMsg", "sudo": "ContractSudoMsg"}
EP_NAME = {"instantiate": "instantiate", "exec": "execute", "query": "query", "sudo": "sudo",
           "migrate": "migrate", "reply": "reply"}

# ---- names ----------------------------------------------------------------------------------
# N_in: the shape C01 quantifies over (lower-case words, each optionally ending in digits, joined
# by single underscores).
N_IN = ["foo", "bar_baz", "a", "get_x", "x_pos", "a_b", "set_a_b", "foo1", "foo1_bar", "v2",
        "item3_list4", "abc_d9_e"]
# N_out: outside that shape; only the self-consistency clauses of C03/C05 speak about them.
N_OUT = ["_lead", "dbl__us", "foo_1", "trail_", "a__1", "x1y", "b11", "b_1"]   # b11 / b_1: method-name order differs from wire-name order
N_RES = ["dispatch", "execute", "query", "sudo", "instantiate", "migrate", "reply", "querier"]

N_IN_RE = re.compile(r"^[a-z]+[0-9]*(_[a-z]+[0-9]*)*$")


def in_shape(name):
    return bool(N_IN_RE.match(name))


def serde_snake(variant):
    """serde's rename_all = "snake_case" applied to an enum variant identifier."""
    out = []
    for i, ch in enumerate(variant):
        if ch.isupper() and i > 0:
            out.append("_")
        out.append(ch.lower())
    return "".join(out)


# ---- argument types and values ---------------------------------------------------------------
# (type text, [canonical JSON texts])  — two same-typed arguments always get distinct values.
TYPES = [
    ("u32", ["0", "7", "4294967295"]),
    ("String", ['""', '"x"', '"\\u00df\\"\\\\"']),
    ("bool", ["true", "false"]),
    ("u64", ["1", "18446744073709551615"]),
    ("i32", ["-1", "5"]),
    ("Option<u32>", ["null", "3"]),
    ("Vec<String>", ["[]", '["p","q"]']),
    ("Inner", ['{"n":1,"o":null}', '{"n":2,"o":"s"}']),
    ("En", ['"unit"', '{"tup":[1,"t"]}', '{"st":{"f":2}}']),
    ("Uint128", ['"0"', '"340282366920938463463374607431768211455"']),
    ("Binary", ['""', '"aGk="']),
    ("Addr", ['"addr0"', '"addr1"']),
    ("Coin", ['{"denom":"atom","amount":"1"}', '{"denom":"btc","amount":"22"}']),
    ("(u8, String)", ['[1,"a"]', '[255,""]']),
    ("()", ["null"]),
]
TYPES_THOROUGH = [
    ("u128", ["1", "340282366920938463463374607431768211455"]),
    ("i128", ["-1", "-170141183460469231731687303715884105728"]),
    ("Vec<Option<Inner>>", ["[]", '[null,{"n":3,"o":null}]']),
]
TYPE_VALUES = dict(TYPES + TYPES_THOROUGH)
TYPE_VALUES["Option<String>"] = ["null", '"s"']
TYPE_VALUES["Option<Option<String>>"] = ["null", '"s"']
TYPE_VALUES["Reply"] = ['{"id":0,"payload":"","gas_used":0,"result":{"ok":{"events":[],"data":null,"msg_responses":[]}}}',
                        '{"id":1,"payload":"aGk=","gas_used":5,"result":{"error":"boom"}}']

ARG_NAMES = ["a", "b1", "_c", "x_y", "r#type", "msg"]
ARG_NAMES_E1 = ARG_NAMES + ["field1", "contract", "ctx", "self_"]


def canon_json(text):
    """Canonical form used to compare JSON documents produced by serde-json-wasm (no spaces)."""
    return json.dumps(json.loads(text), separators=(",", ":"), ensure_ascii=False)


# ---- AST --------------------------------------------------------------------------------------

@dataclass
class Arg:
    name: str
    ty: str
    attrs: tuple = ()


@dataclass
class Method:
    kind: str
    name: str
    args: tuple = ()
    ret: str = None           # explicit return type (text) or None for the default of the kind
    msg_params: str = ""      # extra text inside #[sv::msg(kind<here>)]
    sv_attrs: tuple = ()      # e.g. ('#[sv::attr(doc = "M1")]',)
    attrs: tuple = ()         # foreign attributes
    vis: str = ""
    body: str = None
    err: str = "std"          # "std" | "own" (Result<_, ContractError>)
    qret: str = "vsupport::EchoResp"
    ctx_attrs: tuple = ()     # attributes on the ctx parameter (C18)
    self_attrs: tuple = ()
    raw_sig: str = None       # full replacement for the parameter list after ctx (C18 oddities)
    ctx_ty: str = None        # explicit context type (legacy reply handlers)


@dataclass
class Interface:
    name: str                 # trait ident
    module: str               # module name
    methods: tuple = ()
    assoc: tuple = ()         # ((name, bounds-text), ...) besides Error
    custom: str = None        # text of #[sv::custom(...)] args, e.g. "msg=Empty, query=Empty"
    attrs: tuple = ()         # other attributes on the trait (sv::msg_attr..., foreign)
    extra_items: tuple = ()   # raw trait items (helper methods, consts)
    mid_items: tuple = ()     # ((position, raw item text), ...): items written before the method at that position
    generics: str = ""        # text after the trait name (C18: generics on interface)
    no_error: bool = False
    messages_as: str = None   # `as X` part in sv::messages
    messages_custom: str = None  # ": custom(msg, query)"
    assoc_impl: tuple = ()    # ((name, concrete type)...) for the impl on the contract
    exec_c: bool = False      # declares `type ExecC: CustomMsg;`
    query_c: bool = False
    body_style: str = None    # overrides the body style of the impl on the contract (e.g. "rich")


@dataclass
class Contract:
    name: str = "Ct"
    methods: tuple = ()
    generics: tuple = ()      # ((name, bounds or ""), ...)
    where: tuple = ()         # predicate texts
    error: str = None         # type text for #[sv::error(..)]
    custom: str = None        # text for #[sv::custom(..)]
    features: str = None      # e.g. "replies"
    interfaces: tuple = ()    # Interface objects (order = order of sv::messages attributes)
    overrides: tuple = ()     # texts of sv::override_entry_point args
    msg_attrs: tuple = ()     # texts of sv::msg_attr args
    attrs: tuple = ()         # foreign attributes on the impl
    raw_attrs: tuple = ()     # raw attribute lines (C18 malformed ones), emitted after the generated ones
    attr_order: tuple = None  # explicit order of all attribute lines (C14), indices into default order
    new: str = "pub const fn new() -> Self { Self }"
    extra_items: tuple = ()   # raw impl items (helpers)
    mid_items: tuple = ()     # ((position, raw item text), ...): items written before the method at that position
    entry_points: str = None  # None = no entry_points macro; "" = #[entry_points]; "generics<..>"
    concrete: tuple = ()      # concrete types used for generics when instantiating
    fields: str = None        # struct body for generic contracts


def iface_customs(iface):
    """(msg type text or None, query type text or None) fixed by the interface's sv::custom attribute."""
    cm = cq = None
    if iface is not None and iface.custom:
        for part in split_top(iface.custom):
            k, v = part.split("=", 1)
            if k.strip() == "msg":
                cm = v.strip()
            elif k.strip() == "query":
                cq = v.strip()
    return cm, cq


def default_ret(kind, part, custom_msg=None, err="std", qret="vsupport::EchoResp", iface=None):
    resp = "Response" if not custom_msg else "Response<%s>" % custom_msg
    if part == "iface":
        if kind == "query":
            return "Result<%s, Self::Error>" % qret
        im, _ = iface_customs(iface)
        if iface is not None and iface.exec_c and not im:
            resp = "Response<Self::ExecC>"
        elif im and im not in ("Empty", "sylvia::cw_std::Empty"):
            resp = "Response<%s>" % im
        else:
            resp = "Response"
        return "Result<%s, Self::Error>" % resp
    if kind == "query":
        return ("StdResult<%s>" % qret) if err == "std" else ("Result<%s, ContractError>" % qret)
    return ("StdResult<%s>" % resp) if err == "std" else ("Result<%s, ContractError>" % resp)


def ctx_type(kind, custom_query=None, iface=None):
    c = CTX[kind]
    if iface is not None:
        _, iq = iface_customs(iface)
        if iface.query_c and not iq:
            return "%s<Self::QueryC>" % c
        if iq and iq not in ("Empty", "sylvia::cw_std::Empty"):
            return "%s<%s>" % (c, iq)
        return c
    if custom_query:
        return "%s<%s>" % (c, custom_query)
    return c


def render_args(m):
    if m.raw_sig is not None:
        return m.raw_sig
    return "".join(", %s%s: %s" % ("".join(a + " " for a in x.attrs), x.name, x.ty) for x in m.args)


def bare(name):
    return name[2:] if name.startswith("r#") else name


def echo_args(m):
    return "vec![%s]" % ", ".join('("%s", vsupport::js(&%s))' % (bare(a.name), a.name) for a in m.args)


def ctx_name(m):
    """Name of the context parameter in the user's own handler: `ctx`, unless an argument has that name."""
    return "the_ctx" if any(bare(a.name) == "ctx" for a in m.args) else "ctx"


def method_body(m, part_label, style, contract_err=None, via_question=False):
    b = _method_body(m, part_label, style, contract_err, via_question)
    return b if m.body is not None or ctx_name(m) == "ctx" else b.replace("ctx.deps", "the_ctx.deps").replace("&ctx.env", "&the_ctx.env").replace("&ctx.info", "&the_ctx.info")


def _method_body(m, part_label, style, contract_err=None, via_question=False):
    if m.body is not None:
        return m.body
    if style == "stub":
        return "{ todo!() }"
    h = "%s::%s" % (part_label, bare(m.name))
    if style == "rich" and m.kind in ("exec", "sudo"):
        info = "Some(&ctx.info)" if m.kind == "exec" else "None"
        return '{ Ok(vsupport::echo_rich_empty("%s", ctx.deps, &ctx.env, %s, %s, a)?) }' % (h, info, echo_args(m))
    if m.kind == "query":
        call = 'vsupport::echo_query("%s", ctx.deps, &ctx.env, %s)' % (h, echo_args(m))
    elif m.kind in ("instantiate", "exec"):
        call = 'vsupport::echo_mut("%s", ctx.deps, &ctx.env, Some(&ctx.info), %s)' % (h, echo_args(m))
    else:
        call = 'vsupport::echo_mut("%s", ctx.deps, &ctx.env, None, %s)' % (h, echo_args(m))
    if m.err == "own":
        return '{ %s.map_err(|e| vsupport::own_err(e, "%s")) }' % (call, h)
    if via_question:
        return "{ Ok(%s?) }" % call
    return "{ %s }" % call


def render_method(m, part, part_label, style, custom_msg=None, custom_query=None, iface=None, decl_only=False):
    lines = []
    for a in m.attrs:
        lines.append(a)
    lines.append("#[sv::msg(%s%s)]" % (m.kind, m.msg_params))
    for a in m.sv_attrs:
        lines.append(a)
    ret = m.ret or default_ret(m.kind, part, custom_msg, m.err, m.qret, iface)
    selfp = "".join(a + " " for a in m.self_attrs) + "&self"
    ctxp = "".join(a + " " for a in m.ctx_attrs) + ctx_name(m) + ": " + (m.ctx_ty or ctx_type(m.kind, custom_query, iface))
    sig = "%sfn %s(%s, %s%s) -> %s" % (m.vis, m.name, selfp, ctxp, render_args(m), ret)
    if decl_only:
        return "\n    ".join(lines + [sig + ";"])
    return "\n    ".join(lines + [sig + " " + method_body(m, part_label, style)])


def render_impl_method(m, part_label, style, iface, custom_query=None):
    """Implementation of an interface method on the contract (no sv attributes)."""
    ret = m.ret or default_ret(m.kind, "iface", None, m.err, m.qret, iface)
    ctxp = ctx_name(m) + ": " + ctx_type(m.kind, custom_query, iface)
    args = "".join(", %s: %s" % (x.name, x.ty) for x in m.args)
    return "fn %s(&self, %s%s) -> %s %s" % (m.name, ctxp, args, ret, method_body(m, part_label, style, via_question=True))


def render_interface(i, style="stub", fw="sylvia"):
    """Returns (attr_lines, trait_item_text).  Together they are the macro input."""
    attrs = []
    if i.custom is not None:
        attrs.append("#[sv::custom(%s)]" % i.custom)
    attrs.extend(i.attrs)
    items = []
    if not i.no_error:
        items.append("type Error: From<StdError>;")
    if i.exec_c:
        items.append("type ExecC: CustomMsg;")
    if i.query_c:
        items.append("type QueryC: CustomQuery;")
    for (n, b) in i.assoc:
        items.append("type %s%s;" % (n, (": " + b) if b else ""))
    for k, m in enumerate(i.methods):
        items.extend(t for (pos, t) in i.mid_items if pos == k)
        items.append(render_method(m, "iface", i.name, style, iface=i, decl_only=True))
    items.extend(i.extra_items)
    item = "pub trait %s%s {\n    %s\n}" % (i.name, i.generics, "\n    ".join(items))
    return attrs, item


def contract_self_ty(c):
    if c.generics:
        return "%s<%s>" % (c.name, ", ".join(n for n, _ in c.generics))
    return c.name


def contract_attr_lines(c):
    lines = []
    if c.error:
        lines.append("#[sv::error(%s)]" % c.error)
    if c.custom is not None:
        lines.append("#[sv::custom(%s)]" % c.custom)
    if c.features is not None:
        lines.append("#[sv::features(%s)]" % c.features)
    for i in c.interfaces:
        t = i.module
        if i.messages_as:
            t += " as " + i.messages_as
        if i.messages_custom:
            t += ": " + i.messages_custom
        lines.append("#[sv::messages(%s)]" % t)
    for o in c.overrides:
        lines.append("#[sv::override_entry_point(%s)]" % o)
    for a in c.msg_attrs:
        lines.append("#[sv::msg_attr(%s)]" % a)
    lines.extend(c.attrs)
    lines.extend(c.raw_attrs)
    if c.attr_order is not None:
        assert sorted(c.attr_order) == list(range(len(lines)))
        lines = [lines[k] for k in c.attr_order]
    return lines


def custom_parts(c):
    """(custom_msg, custom_query) type texts of the contract or None."""
    cm = cq = None
    if c.custom:
        for part in split_top(c.custom):
            k, v = part.split("=", 1)
            if k.strip() == "msg":
                cm = v.strip()
            elif k.strip() == "query":
                cq = v.strip()
    return cm, cq


def split_top(text):
    out, depth, cur = [], 0, ""
    for ch in text:
        if ch in "<([":
            depth += 1
        elif ch in ">)]":
            depth -= 1
        if ch == "," and depth == 0:
            out.append(cur)
            cur = ""
        else:
            cur += ch
    if cur.strip():
        out.append(cur)
    return [x.strip() for x in out]


def render_contract_impl(c, style="stub"):
    """Returns (attr_lines, impl_item_text): the `contract` macro input."""
    cm, cq = custom_parts(c)
    gens = ""
    if c.generics:
        gens = "<%s>" % ", ".join((n + (": " + b if b else "")) for n, b in c.generics)
    where = ""
    if c.where:
        where = " where " + ", ".join(c.where)
    items = []
    if c.new:
        items.append(c.new)
    for k, m in enumerate(c.methods):
        items.extend(t for (pos, t) in c.mid_items if pos == k)
        items.append(render_method(m, "contract", c.name, style, cm, cq))
    items.extend(c.extra_items)
    item = "impl%s %s%s {\n    %s\n}" % (gens, contract_self_ty(c), where, "\n\n    ".join(items))
    return contract_attr_lines(c), item


def e1_contract_record(pid, c, want="", style="stub"):
    attrs, item = render_contract_impl(c, style)
    return {"id": pid, "mac": "contract", "attr": "", "item": "\n".join(attrs + [item]), "want": want}


def e1_entry_points_record(pid, c, want="", style="stub"):
    attrs, item = render_contract_impl(c, style)
    # entry_points sits above contract: it sees the item with the contract attribute still on it
    return {"id": pid, "mac": "entry_points", "attr": c.entry_points or "",
            "item": "\n".join(["#[contract]"] + attrs + [item]), "want": want}


def e1_interface_record(pid, i, want="", style="stub"):
    attrs, item = render_interface(i, style)
    return {"id": pid, "mac": "interface", "attr": "", "item": "\n".join(attrs + [item]), "want": want}


# ---- observation helpers (reading E1 dumps) ----------------------------------------------------

def find_items(items, k=None, name=None):
    for it in items:
        if (k is None or it.get("k") == k) and (name is None or it.get("name") == name):
            yield it


def sv_items(obs):
    """Items of the generated `sv` module (or `entry_points` module) of an observation."""
    for it in obs.get("items", []):
        if it.get("k") == "mod":
            return it["name"], it.get("items", [])
    return None, []


def norm(ts):
    """Normalises a token string for comparison (collapses whitespace)."""
    return re.sub(r"\s+", "", ts)


def has_wide_int(text):
    """True when a JSON text carries a bare integer outside the 64-bit ranges (native u128 / i128 values)."""
    if isinstance(text, bytes):
        text = text.decode("utf-8", "replace")
    for m in re.finditer(r'(?<![\w".])-?\d{19,}(?![\w".])', text):
        v = int(m.group(0))
        if v > 2 ** 64 - 1 or v < -2 ** 63:
            return True
    return False
