"""C05 — name collisions are rejected at build time; published lists are sorted and exact.

E4: the real `assert_no_intersection` on every tuple of sorted duplicate-free lists (bounded).
E3: programs with / without a shared wire name must fail / pass compilation (const evaluation).
E1: published list == sorted serde names (shared with C03's identifier space).
"""
import itertools

from . import core, e4, e2, model, c03
from .model import Method, Arg, Contract, Interface

ENUMK = ["exec", "query", "sudo"]


def collision_programs(tier):
    """[(pid, Contract, must_fail, marker)] — a shared name between (contract, iface) or (iface, iface),
    per kind, at first / middle / last sorted position; plus the same programs with distinct names."""
    out = []
    names = ["aaa", "mmm", "zzz"]
    n = 0
    for kind in ENUMK:
        for pos, shared in enumerate(names):
            for pair in ("ci", "ii"):
                for collide in (True, False):
                    if tier == "quick" and not collide and not (pos == 1):
                        continue
                    other = [x for x in names if x != shared]
                    # declared in reverse alphabetical order: the overlap scan relies on the generator sorting the lists
                    a_names = sorted([shared, "b" + other[0], "y_last"], reverse=True)
                    b_names = sorted([shared if collide else shared + "x", "c" + other[1], "x_last"], reverse=True)
                    mk = lambda ns: [Method(kind, nm, (Arg("a", "u32"),)) for nm in ns]
                    i0 = Interface(name="If0", module="if0", methods=tuple(mk(b_names)), custom="msg=Empty, query=Empty")
                    if pair == "ci":
                        c = Contract(methods=tuple([Method("instantiate", "inst", ())] + mk(a_names)), interfaces=(i0,))
                    else:
                        i1 = Interface(name="If1", module="if1", methods=tuple(mk(a_names)), custom="msg=Empty, query=Empty")
                        c = Contract(methods=(Method("instantiate", "inst", ()), Method(kind, "own_only", ())), interfaces=(i0, i1))
                    out.append(("pc%03d" % n, c, collide, {"kind": kind, "pos": pos, "pair": pair, "shared": shared}))
                    n += 1
    # a generic contract that nothing in its crate instantiates (a library contract): the check must not wait for an instantiation
    B = "sylvia::serde::Serialize + sylvia::serde::de::DeserializeOwned + std::fmt::Debug + Clone + PartialEq + sylvia::schemars::JsonSchema + 'static"
    for kind in (ENUMK if tier == "thorough" else ["exec", "sudo"]):
        for collide in (True, False):
            i0 = Interface(name="If0", module="if0", methods=(Method(kind, "mmm", (Arg("a", "u32"),)), Method(kind, "other", ())), custom="msg=Empty, query=Empty")
            c = Contract(methods=(Method("instantiate", "inst", ()), Method(kind, "mmm" if collide else "mmx", (Arg("a", "TA"),)), Method(kind, "zzz", ())), interfaces=(i0,),
                         generics=(("TA", ""),), where=("TA: " + B,), new="pub const fn new() -> Self { Self { _p: std::marker::PhantomData } }")
            out.append(("pc%03d" % n, c, collide, {"kind": kind, "pair": "ci", "shared": "mmm", "generic_uninstantiated": True}))
            n += 1
    # same name in *different* kinds never collides (control)
    i0 = Interface(name="If0", module="if0", methods=(Method("query", "foo", ()), Method("sudo", "bar", ())), custom="msg=Empty, query=Empty")
    c = Contract(methods=(Method("instantiate", "inst", ()), Method("exec", "foo", ()), Method("query", "bar", ())), interfaces=(i0,))
    out.append(("pc%03d" % n, c, False, {"kind": "mixed", "pair": "ci"}))
    n += 1
    # names that differ as identifiers but serialise alike collide on the wire (digit / underscore forms)
    for (n1, n2) in [("foo1", "foo_1")] if tier == "quick" else [("foo1", "foo_1"), ("a_b", "ab"), ("x__y", "x_y")]:
        i0 = Interface(name="If0", module="if0", methods=(Method("exec", n2, ()),), custom="msg=Empty, query=Empty")
        c = Contract(methods=(Method("instantiate", "inst", ()), Method("exec", n1, ())), interfaces=(i0,))
        out.append(("pc%03d" % n, c, None, {"kind": "exec", "pair": "ci", "idents": [n1, n2]}))
        n += 1
    return out


def run_e3(res, tier):
    progs = collision_programs(tier)
    recs = []
    for pid, c, must_fail, mark in progs:
        recs.append(model.e1_contract_record(pid + ":ct", c, want="items,bodies=execute_messages|query_messages|sudo_messages"))
        for i in c.interfaces:
            recs.append(model.e1_interface_record(pid + ":" + i.module, i, want="items,bodies=execute_messages|query_messages|sudo_messages"))
    obs = {o["id"]: o for o in core.e1_run(recs, "c05-" + tier)}
    cp = e2.Corpus("collide-" + tier)
    for pid, c, must_fail, mark in progs:
        glue = "pub struct Subj;\nimpl vsupport::Subject for Subj { fn run(&self, c: &vsupport::Case) -> vsupport::Obs { json!({}) } }\n"
        cp.add(pid, e2.render_program(pid, c, glue=glue))
    cp.write()
    cp.build(check_only=True)
    for pid, c, must_fail, mark in progs:
        res.add(states=1, transitions=1, traces=1, evaluations=1)
        # model: wire names per part and kind from the real tables
        if must_fail is None:
            tabs = {}
            for part in ["ct"] + [i.module for i in c.interfaces]:
                name, items = model.sv_items(obs[pid + ":" + part])
                tabs[part] = set(c03.table_of(items, mark["kind"]) or [])
            parts = list(tabs.values())
            must_fail = any(parts[i] & parts[j] for i in range(len(parts)) for j in range(i + 1, len(parts)))
            mark = dict(mark, derived_collision=must_fail)
        failed = pid in cp.failed
        res.outcome((must_fail, failed))
        if must_fail:
            res.mark_nontrivial(pid)
        src = dict(cp.programs_src).get(pid) if hasattr(cp, "programs_src") else None
        if must_fail and not failed:
            res.violation({"kind": "compile", "cls": "collision_accepted", "pid": pid, "mark": mark,
                           "what": "%s: parts share a wire name (%s) but the contract compiles" % (pid, mark)})
        elif not must_fail and failed:
            res.violation({"kind": "compile", "cls": "valid_rejected", "pid": pid, "mark": mark, "diags": cp.failed[pid][:3],
                           "what": "%s: no shared wire name (%s) but the contract does not compile: %s" % (pid, mark, cp.failed[pid][0]["message"])})
        elif must_fail and failed:
            d = cp.failed[pid]
            if not any("Message overlaps" in (x.get("rendered") or "") or x.get("code") == "E0080" for x in d):
                res.violation({"kind": "compile", "cls": "wrong_diagnostic", "pid": pid, "mark": mark, "diags": d[:3],
                               "what": "%s: rejected, but not by the overlap check: %s" % (pid, d[0]["message"])})
    res.parts["compile_programs"] = len(progs)
    res.parts["compile_must_fail"] = sum(1 for p in progs if p[2])


def run(tier):
    res = core.Result("C05", tier)
    out = e4.run_suite_into(res, "merge", tier)
    if out is not None:
        n = out["tuples"] + out["extra_long_cases"]
        res.add(states=n, transitions=n, traces=n, evaluations=n)
        res.nontrivial = set(range(out["nontrivial"]))
        res.outcome(("panicked", out["panicked"] > 0))
        res.outcome(("clean", out["tuples"] - out["panicked"] > 0))
        for v in out["violations"]:
            res.violation({"kind": "merge", "lists": v["lists"], "panicked": v["panicked"], "overlap": v["overlap"],
                           "what": "assert_no_intersection(%s): panicked=%s but lists %s" % (v["lists"], v["panicked"], "overlap" if v["overlap"] else "are disjoint")})
        res.sample(out["sample"])
        res.parts = {"merge_tuples_per_parts": out["per_parts"], "merge_alphabet": out["alphabet"], "merge_overlapping": out["overlapping"],
                     "merge_long_cases": out["extra_long_cases"]}
    else:
        out = e4.stub()
    run_e3(res, tier)
    c03.run_e1(res, tier)
    res.cov["rule"] = ("E4: every tuple of 1..%d lists, each list any subset (in sorted order) of a 6-string alphabet chosen to stress ordering ('', a, a1, a_b, ab, b), "
                       "plus partitions of an 8-name list over 5 parts with a planted duplicate, through the real assert_no_intersection under catch_unwind: "
                       "panics iff two lists share a string.  E3: contracts whose parts share a wire name (contract/interface and interface/interface, each "
                       "kind, first/middle/last sorted position) must fail to compile with the overlap diagnostic, their distinct-name twins must compile. "
                       "E1: published list == sorted serde names for all identifiers over {a,b,1,_}.  non-trivial = at least two non-empty lists / a colliding program"
                       % out["max_parts"])
    res.assumptions += ["lists longer than 6 entries and more than 4 parts are covered only by the partition cases",
                        "compile-time behaviour is observed through cargo check diagnostics attributed to programs by span"]
    return res.finish()
