"""C06 — entry points exist exactly for defined, non-overridden kinds and forward calls.

E1 part: the full configuration product through `entry_points_impl` (and `contract_impl` for the
multitest `Contract` impl, which must honour the same override table).
E2 part (compiled forwarding == direct dispatch): vlib/e2 family `override` (see c06_e2).
"""
import itertools
import re

from . import core, model
from .model import Method, Arg, Contract, norm

KINDS6 = ["instantiate", "exec", "query", "sudo", "migrate", "reply"]
ACCESSOR = {"instantiate": "Instantiate", "exec": "ContractExec", "query": "ContractQuery", "sudo": "ContractSudo",
            "migrate": "Migrate"}


def program(over, has_migrate, has_reply, replies_feature, generic, order=None, bare=False):
    """bare: the contract declares no exec / query / sudo handler of its own (their entry points exist all the same:
    the contract-level messages still carry the interfaces' messages)."""
    ms = [Method("instantiate", "inst", (Arg("a", "u32"),))]
    if not bare:
        ms += [Method("exec", "foo", (Arg("x", "u32"),)),
               Method("query", "get_x", (), qret="u32"),
               Method("sudo", "sd", ())]
    if has_migrate:
        ms.append(Method("migrate", "mig", (Arg("v", "u32"),)))
    if has_reply:
        if replies_feature:
            ms.append(Method("reply", "rep", (Arg("result", "SubMsgResult"), Arg("payload", "Binary", ("#[sv::payload(raw)]",)))))
            if has_reply == 2:   # with the feature a contract may declare any number of reply handlers
                ms.append(Method("reply", "rep_b", (Arg("error", "String"), Arg("payload", "Binary", ("#[sv::payload(raw)]",))), msg_params=", reply_on=error"))
        else:
            # a name that does not survive a round trip through the variant name
            ms.append(Method("reply", "rep_v2", (Arg("reply", "Reply"),)))
    overrides = tuple("%s=crate::ovr::%s_ep(crate::ovr::%sMsgX)" % (k, k, k.capitalize()) for k in (order or KINDS6) if k in over)
    c = Contract(name="Ct", methods=tuple(ms), overrides=overrides,
                 features="replies" if replies_feature else None,
                 entry_points="")
    if generic:
        c.generics = (("A", ""), ("B", ""))
        c.where = ("A: CustomMsg + 'static", "B: 'static")
        c.entry_points = "generics<Empty, u64>"
        c.new = "pub const fn new() -> Self { Self { _p: std::marker::PhantomData } }"
    return c


def expected_fns(over, has_migrate, has_reply):
    s = {"instantiate", "execute", "query", "sudo"}
    if has_migrate:
        s.add("migrate")
    if has_reply:
        s.add("reply")
    for k in over:
        s.discard(model.EP_NAME[k])
    return s


def check_entry_point(res, pid, src, kind, fn, generic, replies_feature, has_reply):
    """Structural forwarding oracle for one emitted entry point."""
    def bad(what):
        res.violation({"kind": "ep_shape", "what": "%s: entry point `%s`: %s" % (pid, fn["name"], what), "program": src, "pid": pid,
                       "ep": fn["name"]})
    body = norm(fn.get("body", ""))
    params = [(norm(p["name"]), norm(p["ty"])) for p in fn["params"]]
    names = [p[0] for p in params]
    want_names = ["deps", "env", "info", "msg"] if kind in ("instantiate", "exec") else ["deps", "env", "msg"]
    if names != want_names:
        bad("parameters %s, expected %s" % (names, want_names))
        return
    ct = "Ct<Empty,u64>" if generic else "Ct"
    turbofish = "Ct::<Empty,u64>::new()" if generic else "Ct::new()"
    deps_ty = "sylvia::cw_std::Deps<" if kind == "query" else "sylvia::cw_std::DepsMut<"
    if not params[0][1].startswith(deps_ty) or ("<%sassylvia::types::ContractApi>::CustomQuery" % ct) not in params[0][1]:
        bad("deps type `%s`" % params[0][1])
    if params[1][1] != "sylvia::cw_std::Env":
        bad("env type `%s`" % params[1][1])
    if kind in ("instantiate", "exec") and params[2][1] != "sylvia::cw_std::MessageInfo":
        bad("info type `%s`" % params[2][1])
    msg_ty = params[-1][1]
    if kind == "reply":
        if msg_ty != "sylvia::cw_std::Reply":
            bad("msg type `%s`" % msg_ty)
    else:
        want = "<%sassylvia::types::ContractApi>::%s" % (ct, ACCESSOR[kind])
        if msg_ty != want:
            bad("msg type `%s`, expected `%s`" % (msg_ty, want))
    ret = norm(fn["ret"] or "")
    okret = ("sylvia::cw_std::Binary" if kind == "query" else "sylvia::cw_std::Response<<%sassylvia::types::ContractApi>::CustomMsg>" % ct)
    if okret not in ret or not ret.endswith(",sylvia::cw_std::StdError>"):
        bad("return type `%s`" % ret)
    # the body is read for what the property states only (what is forwarded to), not for how it is spelled; whether the
    # forwarding is *correct* is decided on compiled code (c06_e2: entry point == direct dispatch)
    if turbofish not in body:
        bad("does not build the contract with its parameterless constructor (`%s`): %s" % (turbofish, fn.get("body")))
    if kind == "reply":
        if replies_feature:
            if "dispatch_reply(" not in body:
                bad("reply entry point does not call sv::dispatch_reply: %s" % fn.get("body"))
        else:
            if not re.search(r"\.rep_v2\(", body):
                bad("legacy reply entry point does not call the annotated reply method `rep_v2`: %s" % fn.get("body"))
    else:
        if ".dispatch(" not in body:
            bad("does not dispatch the message: %s" % fn.get("body"))
    attrs = [norm(a) for a in fn.get("attrs", [])]
    if not any(a.startswith("#[sylvia::cw_std::entry_point") for a in attrs):
        bad("missing #[entry_point] attribute: %s" % attrs)


MT_FN = {"instantiate": "instantiate", "exec": "execute", "query": "query", "sudo": "sudo", "migrate": "migrate", "reply": "reply"}


def check_mt_contract(res, pid, src, over, has_migrate, has_reply, replies_feature, items):
    """The multitest `Contract` impl generated by `contract` must use the override for exactly
    the overridden kinds and the default dispatch for the others."""
    imp = None
    for it in items:
        if it.get("k") == "mod" and it.get("name") == "mt":
            for x in it.get("items", []):
                if x.get("k") == "impl" and x.get("trait") and "cw_multi_test :: Contract" in x["trait"]:
                    imp = x
    if imp is None:
        res.violation({"kind": "mt_missing", "what": "%s: no multitest Contract impl found" % pid, "program": src, "pid": pid})
        return
    fns = {f["name"]: f for f in imp["items"] if f.get("k") == "fn"}
    for k in KINDS6:
        f = fns.get(MT_FN[k])
        if not f:
            res.violation({"kind": "mt_missing_fn", "what": "%s: multitest Contract impl lacks fn %s" % (pid, MT_FN[k]), "program": src, "pid": pid})
            continue
        body = norm(f.get("body", ""))
        calls_override = {k2: ("crate::ovr::%s_ep(" % k2) in body for k2 in KINDS6}
        want = {k2: (k2 == k and k in over) for k2 in KINDS6}
        if calls_override != want:
            got = sorted(k2 for k2, v in calls_override.items() if v)
            res.violation({"kind": "mt_override", "pid": pid, "program": src, "mtfn": MT_FN[k], "over": sorted(over),
                           "what": "%s: multitest `%s` calls override(s) %s, expected %s (overridden kinds: %s)" % (
                               pid, MT_FN[k], got, [k] if k in over else [], sorted(over))})
            continue
        if k in over:
            # the chain hands reply over already decoded; every other kind arrives as bytes
            if k == "reply":
                decodes = "msg)" in body and "from_json" not in body
            else:
                decodes = ("crate::ovr::%sMsgX" % k.capitalize()) in body
            if not decodes:
                res.violation({"kind": "mt_override_msg", "pid": pid, "program": src,
                               "what": "%s: multitest `%s` does not decode the override's message type: %s" % (pid, MT_FN[k], f.get("body"))})
        else:
            if k == "migrate" and not has_migrate:
                ok = "migratenotimplemented" in body and "dispatch" not in body
            elif k == "reply" and not has_reply:
                ok = "replynotimplemented" in body and "dispatch" not in body
            elif k == "reply":
                ok = ("dispatch_reply(" in body) if replies_feature else bool(re.search(r"self\.rep_v2\(", body))
            else:
                ok = (".dispatch(self," in body) and (("::%s>" % ACCESSOR[k]) in body)
            if not ok:
                res.violation({"kind": "mt_default", "pid": pid, "program": src,
                               "what": "%s: multitest `%s` (not overridden) has unexpected body: %s" % (pid, MT_FN[k], f.get("body"))})


def configs(tier):
    for n in range(0, 7):
        for over in itertools.combinations(KINDS6, n):
            for has_migrate in (False, True):
                for has_reply in (False, True, 2):
                    for feat in (False, True):
                        for generic in (False, True):
                            if has_reply == 2 and (not feat or generic):
                                continue
                            yield (frozenset(over), has_migrate, has_reply, feat, generic, None)
    # contracts without own exec / query / sudo handlers
    for n in range(0, 7):
        for over in itertools.combinations(KINDS6, n):
            for has_migrate in (False, True):
                for has_reply in (False, True):
                    yield (frozenset(over), has_migrate, has_reply, True, False, "bare")
    if tier == "thorough":
        for order in itertools.permutations(KINDS6):
            yield (frozenset(KINDS6[:3] + ["migrate"]), True, True, True, False, list(order))
            yield (frozenset(KINDS6), True, True, True, False, list(order))


def e1_records(tier):
    recs = []
    for (over, has_migrate, has_reply, feat, generic, order) in configs("quick"):
        if order == "bare":
            continue
        c = program(over, has_migrate, has_reply, feat, generic, order)
        pid = "c06:%s:m%d:r%d:f%d:g%d" % ("+".join(sorted(over)) or "none", has_migrate, has_reply, feat, generic)
        recs.append(model.e1_entry_points_record("ep:" + pid, c, want="items,allbodies"))
    return recs


def run(tier):
    res = core.Result("C06", tier)
    recs, meta = [], {}
    for cfg in configs(tier):
        (over, has_migrate, has_reply, feat, generic, order) = cfg
        bare = order == "bare"
        if bare:
            order = None
        c = program(over, has_migrate, has_reply, feat, generic, order, bare=bare)
        pid = "%s:m%d:r%d:f%d:g%d%s%s" % ("+".join(sorted(over)) or "none", has_migrate, has_reply, feat, generic,
                                          (":o" + "".join(k[0] for k in order)) if order else "", ":bare" if bare else "")
        cfg = (over, has_migrate, has_reply, feat, generic, order)
        r = model.e1_entry_points_record("ep:" + pid, c, want="items,allbodies")
        recs.append(r)
        meta[r["id"]] = (cfg, r["item"])
        r2 = model.e1_contract_record("ct:" + pid, c, want="items,mt,bodies=execute|instantiate|query|sudo|reply|migrate")
        recs.append(r2)
        meta[r2["id"]] = (cfg, r2["item"])
    obs = core.e1_run(recs, "c06-" + tier)
    sets_seen = set()
    for o in obs:
        (over, has_migrate, has_reply, feat, generic, order), src = meta[o["id"]]
        pid = o["id"]
        res.add(states=1, transitions=1, traces=1, evaluations=1)
        if o.get("panic") or o.get("dirty") or o.get("has_compile_error") or not o.get("out_parse_ok"):
            res.violation({"kind": "rejected", "pid": pid, "program": src,
                           "what": "%s: valid configuration rejected/panicked: dirty=%s panic=%s" % (pid, o.get("dirty"), o.get("panic"))})
            continue
        if over or has_migrate or has_reply:
            res.mark_nontrivial(pid)
        if pid.startswith("ep:"):
            name, items = model.sv_items(o)
            if name != "entry_points":
                res.violation({"kind": "no_module", "pid": pid, "program": src, "what": "%s: no `entry_points` module emitted" % pid})
                continue
            fns = [it for it in items if it.get("k") == "fn"]
            got = sorted(f["name"] for f in fns)
            want = sorted(expected_fns(over, has_migrate, has_reply))
            sets_seen.add(tuple(got))
            res.outcome(("ep", tuple(got)))
            if got != want:
                res.violation({"kind": "ep_set", "pid": pid, "program": src, "over": sorted(over), "got": got, "want": want,
                               "missing": sorted(set(want) - set(got)), "extra": sorted(set(got) - set(want)),
                               "what": "%s: entry points %s, expected %s (overridden: %s, migrate handler: %s, reply handler: %s)" % (
                                   pid, got, want, sorted(over), has_migrate, has_reply)})
            inv = {v: k for k, v in model.EP_NAME.items()}
            for f in fns:
                if f["name"] in inv:
                    check_entry_point(res, pid, src, inv[f["name"]], f, generic, feat, has_reply)
                    res.add(transitions=1)
        else:
            check_mt_contract(res, pid, src, over, has_migrate, has_reply, feat, o.get("items", [])[0].get("items", []) if o.get("items") else [])
            res.add(transitions=6)
    res.sample({"program": recs[37]["item"], "macro_attr": recs[37]["attr"]})
    res.cov["rule"] = ("all 2^6 subsets of overridden kinds x migrate handler present/absent x reply handler present/absent x "
                       "features(replies) on/off x generic (entry_points(generics<..>)) / non-generic = 1024 configurations, plus the 256 configurations of a "
                       "contract without own exec/query/sudo handlers"
                       + (", plus all 720 orders of the override attributes on two programs" if tier == "thorough" else "")
                       + "; each through entry_points_impl (emitted fn set == formula; signature/forwarding shape of each emitted fn) and "
                       "through contract_impl (multitest Contract impl uses the override for exactly the overridden kinds); "
                       "non-trivial = at least one override or optional handler")
    res.parts = {"distinct_entry_point_sets": len(sets_seen), "configurations": len(recs) // 2}
    res.assumptions += ["forwarding *behaviour* (same response/error/storage as direct dispatch) is decided by the compiled part of this check (E2 family `override`)",
                        "E1 runs the cfg(test) build of sylvia-derive, where the framework path is always `sylvia`"]
    from . import c06_e2
    c06_e2.run_into(res, tier)
    return res.finish()
