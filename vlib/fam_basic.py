"""Family `basic`: echo contracts for C01–C04 (names, argument types, kinds, parts, errors)."""
import itertools
import json

from . import core, model, e2
from .model import Method, Arg, Contract, Interface, N_IN, N_OUT, TYPES, TYPES_THOROUGH, ARG_NAMES, bare

ROT = {0: ("exec", "query", "sudo"), 1: ("query", "sudo", "exec"), 2: ("sudo", "exec", "query")}

CONTEXTS = [
    {"sender": "sender0", "funds": [], "height": 1, "storage": {}, "api_prefix": "cosmwasm", "balance": "0", "contract": "contract0"},
    {"sender": "sender1", "funds": [["atom", "5"]], "height": 777, "storage": {"probe": "P1"}, "api_prefix": "osmo", "balance": "42", "contract": "contract1", "tx": 17},
    {"sender": "sender0", "funds": [["btc", "1"], ["atom", "5"], ["atom", "2"]], "height": 777, "storage": {"probe": "P2"}, "api_prefix": "cosmwasm", "balance": "42", "contract": "contract0"},
    {"sender": "sender1", "funds": [], "height": 1, "storage": {}, "api_prefix": "osmo", "balance": "0", "contract": "contract1", "tx": None},
]
FAIL_CONTEXTS = [dict(c, storage=dict(c["storage"], fail="1")) for c in CONTEXTS[:2]]


def iface(idx, methods, custom="msg=Empty, query=Empty"):
    return Interface(name="If%d" % idx, module="if%d" % idx, methods=tuple(methods), custom=custom)


def names_program(rot, names, tag):
    kc, k0, k1 = ROT[rot]
    mk = lambda k: [Method(k, n, (Arg("a", "u32"),)) for n in names]
    return Contract(methods=tuple([Method("instantiate", "inst", ())] + mk(kc)),
                    interfaces=(iface(0, mk(k0)), iface(1, mk(k1), custom=None)), entry_points="")


def types_program(types):
    ex, qs, ss = [], [], []
    for k, (ty, vals) in enumerate(types):
        an = ARG_NAMES[k % len(ARG_NAMES)]
        ex.append(Method("exec", "t%d" % k, (Arg(an, ty),)))
        qs.append(Method("query", "t%d" % k, (Arg(an, ty),)))
        if k % 3 == 0:
            ss.append(Method("sudo", "t%d" % k, (Arg(an, ty),)))
        if len(vals) >= 2:
            ex.append(Method("exec", "p%d" % k, (Arg("a", ty), Arg("b1", ty))))
            if k % 2 == 0:
                qs.append(Method("query", "p%d" % k, (Arg("x_y", ty), Arg("_c", ty))))
    # identity queries: the caller must get the JSON encoding of exactly the returned value, whatever its type
    idq = [Method("query", "id%d" % k, (Arg("a", ty),), qret=ty, body="{ Ok(a) }") for k, (ty, vals) in enumerate(types)]
    qs.extend(Method("query", "iid%d" % k, (Arg("a", ty),), qret=ty, body="{ Ok(a) }") for k, (ty, vals) in enumerate(types) if k % 4 == 1)
    ex.append(Method("exec", "q0", (Arg("a", "u32"), Arg("b1", "String"), Arg("_c", "u32"))))
    ex.append(Method("exec", "q1", (Arg("x_y", "String"), Arg("r#type", "u32"), Arg("msg", "String"))))
    ss.append(Method("sudo", "q2", (Arg("msg", "u32"), Arg("a", "u32"), Arg("b1", "u32"))))
    # argument names equal to locals of the generated dispatch / entry point functions
    ex.append(Method("exec", "q3", (Arg("contract", "u32"), Arg("field1", "String"), Arg("env", "u32"))))
    ex.append(Method("exec", "q6", (Arg("funds", "u32"), Arg("msg", "String"), Arg("code_id", "u32"))))
    ss.append(Method("sudo", "q4", (Arg("deps", "u32"), Arg("info", "u32"), Arg("contract", "String"))))
    qs.append(Method("query", "q5", (Arg("contract", "u32"), Arg("querier", "String"))))
    ms = [Method("instantiate", "inst", (Arg("a", "u32"), Arg("contract", "String"), Arg("r#type", "Inner"))),
          Method("migrate", "mig", (Arg("x_y", "Option<u32>"), Arg("msg", "Vec<String>"), Arg("contract", "u32")))]
    return Contract(methods=tuple(ms + ex + idq), interfaces=(iface(0, qs), iface(1, ss)), entry_points="")


def is_identity(m):
    return m.kind == "query" and m.body == "{ Ok(a) }"


def error_program():
    ms = [Method("instantiate", "inst", (Arg("a", "u32"),), err="own"),
          Method("migrate", "mig", (Arg("a", "u32"),), err="std"),
          Method("exec", "own_e", (Arg("a", "u32"),), err="own"),
          Method("exec", "std_e", (Arg("a", "u32"),), err="std"),
          Method("query", "own_q", (Arg("a", "u32"),), err="own"),
          Method("query", "std_q", (Arg("a", "u32"),), err="std"),
          Method("sudo", "own_s", (Arg("a", "u32"),), err="own"),
          Method("sudo", "std_s", (Arg("a", "u32"),), err="std")]
    i0 = iface(0, [Method("exec", "ie", (Arg("a", "u32"),)), Method("query", "iq", (Arg("a", "u32"),)),
                   Method("sudo", "is", (Arg("a", "u32"),))])
    return Contract(methods=tuple(ms), interfaces=(i0,), error="ContractError", entry_points="")


def samename_program():
    """Same name / same shape in different kinds (C04), and documents valid for two kinds."""
    a = (Arg("n", "u32"), Arg("o", "Option<String>"))
    ms = [Method("instantiate", "inst", (Arg("foo", "Inner"),)),
          Method("migrate", "mig", (Arg("foo", "Inner"),)),
          Method("exec", "foo", a),
          Method("query", "bar", a),
          Method("sudo", "baz", a)]
    i0 = iface(0, [Method("query", "foo", a), Method("sudo", "bar", a), Method("exec", "baz", a)])
    i1 = iface(1, [Method("sudo", "foo", a), Method("exec", "bar", a), Method("query", "baz", a)], custom=None)
    return Contract(methods=tuple(ms), interfaces=(i0, i1), entry_points="")


def reply_program():
    """Contract with a reply handler next to handlers of every other kind (C04)."""
    a = (Arg("n", "u32"), Arg("o", "Option<String>"))
    ms = [Method("instantiate", "inst", (Arg("id", "u64"),)),
          Method("migrate", "mig", (Arg("id", "u64"),)),
          Method("exec", "foo", a),
          Method("query", "bar", a),
          Method("sudo", "baz", a),
          Method("reply", "rp", (Arg("result", "SubMsgResult"), Arg("payload", "Binary", ("#[sv::payload(raw)]",)))),
          Method("reply", "on_ok", (Arg("payload", "Binary", ("#[sv::payload(raw)]",)),), msg_params=", reply_on=success")]
    i0 = iface(0, [Method("exec", "rp", a), Method("query", "on_ok", a), Method("sudo", "inst", a)])
    return Contract(methods=tuple(ms), interfaces=(i0,), features="replies", entry_points="")


def legacy_reply_program():
    """Legacy reply handler (no `replies` feature) whose name has a letter/digit boundary, next to a
    sudo handler named like the re-cased form (C04)."""
    ms = [Method("instantiate", "inst", ()),
          Method("reply", "on_reply2", (Arg("reply", "Reply"),), ctx_ty="vsupport::sylvia::types::ReplyCtx"),
          Method("sudo", "on_reply_2", (Arg("reply", "Reply"),)),
          Method("exec", "foo", ())]
    return Contract(methods=tuple(ms), entry_points="")


def recase_program():
    """Handlers of different kinds whose names differ only by where a digit is separated: re-deriving a
    method name from a message name (UpperCamel and back) maps one onto the other (C04)."""
    a = (Arg("a", "u32"),)
    # (pairs among exec / query / sudo cannot be built: the generated multitest proxy derives one method name for both)
    ms = [Method("instantiate", "setup2", a), Method("exec", "setup_2", a), Method("sudo", "setup_2x", a)]
    return Contract(methods=tuple(ms), entry_points="")


def ctxmix_program():
    """Handlers whose context parameter is typed with the context of *another* kind of the same shape
    (legal: the conversion from the dispatch tuple exists); the annotation alone decides the kind (C04)."""
    a = (Arg("a", "u32"),)
    ms = [Method("instantiate", "inst", a, ctx_ty="ExecCtx"),
          Method("exec", "ex", a, ctx_ty="InstantiateCtx"),
          Method("sudo", "apply_upgrade", a, ctx_ty="MigrateCtx"),
          Method("sudo", "plain_sudo", a),
          Method("query", "qu", a)]
    return Contract(methods=tuple(ms), entry_points="")


def instnames_program():
    """Instantiate / migrate arguments named like parameters and locals of the generated helpers."""
    ms = [Method("instantiate", "inst", (Arg("code_id", "u64"), Arg("msg", "String"), Arg("label", "String"))),
          Method("migrate", "mig", (Arg("new_code_id", "u64"), Arg("sender", "String"), Arg("msg", "u32"))),
          Method("exec", "ex", (Arg("admin", "Option<String>"), Arg("salt", "u32"), Arg("funds", "u32"))),
          Method("query", "qu", (Arg("query", "u32"), Arg("querier", "u32")))]
    return Contract(methods=tuple(ms), entry_points="")


_BINDERS = None
BIND_TYPES = ["u32", "String", "bool", "u64", "i32", "Option<u32>", "Vec<String>", "Inner", "Uint128"]


def binder_names():
    """Every lower-case identifier the code generated for a reference program binds as a value (function and closure
    parameters, let / match / struct patterns), read from the real expansion (E1, multitest helpers included).
    Identifiers in the generator's own reserved namespaces (`sv_*`, `__*`) are left out."""
    global _BINDERS
    if _BINDERS is None:
        recs = []
        for pid, c in (("ptypes0", types_program(TYPES)), ("preply0", reply_program()), ("perr0", error_program())):
            recs.append(model.e1_contract_record("bind:%s:ct" % pid, c, want="binders,mt"))
            recs.append(model.e1_entry_points_record("bind:%s:ep" % pid, c, want="binders,mt"))
            for i in c.interfaces:
                recs.append(model.e1_interface_record("bind:%s:%s" % (pid, i.module), i, want="binders,mt"))
        names = set()
        for o in core.e1_run(recs, "binders"):
            if "binders" not in o:
                raise core.MachineryError("no binder list in the E1 observation of %s" % o.get("id"))
            names.update(n for f, n in o["binders"])
        _BINDERS = sorted(n for n in names if not n.startswith("sv_") and not n.startswith("__") and n != "_")
        if len(_BINDERS) < 20:
            raise core.MachineryError("implausibly few binders in the generated code: %s" % _BINDERS)
    return _BINDERS


def binder_programs():
    """Handlers of every kind, in a contract and in an interface, whose arguments are named like each identifier the
    generated code binds: none may be captured or shadowed (the program compiles and every argument reaches its parameter)."""
    names = binder_names()
    W = 6
    chunks = [names[k:k + W] for k in range(0, len(names), W)]
    args = lambda ch, rot: tuple(Arg(n, BIND_TYPES[(j + rot) % len(BIND_TYPES)]) for j, n in enumerate(ch))
    cm, im = [Method("instantiate", "inst", ())], []
    for j, ch in enumerate(chunks):
        for k, p in (("exec", "be"), ("query", "bq"), ("sudo", "bs")):
            cm.append(Method(k, "%s%d" % (p, j), args(ch, j)))
            im.append(Method(k, "i%s%d" % (p, j), args(ch, j + 3)))
    out = [("pbind0", Contract(methods=tuple(cm), interfaces=(iface(0, im),), entry_points=""), {"types", "argnames", "binders"})]
    W2 = 12
    for j, k in enumerate(range(0, len(names), W2)):
        ch = names[k:k + W2]
        ms = [Method("instantiate", "inst", args(ch, j)), Method("migrate", "mig", args(list(reversed(ch)), j + 1)), Method("exec", "ex", ())]
        out.append(("pbind%d" % (j + 1), Contract(methods=tuple(ms), entry_points=""), {"types", "argnames", "binders"}))
    return out


def items_program():
    """Handlers interleaved with other legal items of the impl block / trait (associated consts, helper methods):
    every annotated method still gets its message, wherever it stands."""
    a = (Arg("a", "u32"),)
    cm = [Method("instantiate", "inst", a), Method("exec", "e_first", a), Method("query", "q_mid", a), Method("exec", "e_second", (Arg("b1", "String"),)),
          Method("sudo", "s_late", a), Method("migrate", "mig", a), Method("query", "q_last", ())]
    mids = ((0, "pub const LIMIT: u32 = 3;"), (2, "fn helper(&self) -> u32 { Self::LIMIT }"), (3, "const OTHER: &'static str = \"x\";"),
            (5, "#[allow(dead_code)]\n    pub fn helper2(&self, _x: u32) {}"), (6, "pub const LAST: u8 = 0;"))
    im = [Method("exec", "ie", a), Method("query", "iq", a), Method("sudo", "is", a), Method("exec", "ie2", ())]
    i0 = Interface(name="If0", module="if0", methods=tuple(im), custom="msg=Empty, query=Empty",
                   mid_items=((0, "fn helper(&self) -> u32 { 7 }"), (2, "fn helper2(&self, _x: u32) -> bool { true }"), (3, "fn helper3(&self) {}")))
    return Contract(methods=tuple(cm), interfaces=(i0,), mid_items=mids, entry_points="")


def msgattr_program():
    """Message types that are given a serde container attribute through `sv::msg_attr`: names and fields stay as declared."""
    a = (Arg("a", "u32"), Arg("b1", "String"))
    cm = [Method("instantiate", "inst", a), Method("migrate", "mig", a), Method("exec", "set_admin", a), Method("exec", "pause_all", ()), Method("query", "get_x", (Arg("a", "u32"),)),
          Method("sudo", "end_block", (Arg("a", "u32"),))]
    im = [Method("exec", "ie_one", a), Method("query", "iq_one", (Arg("a", "u32"),)), Method("sudo", "is_one", ())]
    i0 = Interface(name="If0", module="if0", methods=tuple(im), custom="msg=Empty, query=Empty",
                   attrs=tuple("#[sv::msg_attr(%s, serde(deny_unknown_fields))]" % k for k in ("exec", "query", "sudo")))
    return Contract(methods=tuple(cm), interfaces=(i0,), entry_points="",
                    msg_attrs=tuple("%s, serde(deny_unknown_fields)" % k for k in ("exec", "query", "sudo", "instantiate", "migrate")))


def prefix_program():
    """Message names of one part that are proper prefixes of names of another part of the same kind,
    the longer-named part listed first (routing must compare whole names)."""
    a = (Arg("a", "u32"),)
    cm, m0, m1 = [Method("instantiate", "inst", ())], [], []
    for k, p in (("exec", ""), ("query", "q_"), ("sudo", "s_")):
        cm += [Method(k, p + "mint_batch_all", a), Method(k, p + "tr", a)]
        m0 += [Method(k, p + "mint_batch", a), Method(k, p + "a_b", a), Method(k, p + "tr_x", a)]
        m1 += [Method(k, p + "mint", a), Method(k, p + "a", a), Method(k, p + "t", a)]
    return Contract(methods=tuple(cm), interfaces=(iface(0, m0), iface(1, m1, custom=None)), entry_points="")


def kinds_program(ckinds, ikinds, with_migrate):
    ms = [Method("instantiate", "inst", (Arg("a", "u32"),))]
    if with_migrate:
        ms.append(Method("migrate", "mig", (Arg("a", "u32"),)))
    for k in ckinds:
        ms.append(Method(k, "c_" + k, (Arg("a", "u32"),)))
        ms.append(Method(k, "c2_" + k, ()))
    ims = []
    for k in ikinds:
        ims.append(Method(k, "i_" + k, (Arg("a", "u32"),)))
    ifs = (iface(0, ims),) if ikinds is not None else ()
    return Contract(methods=tuple(ms), interfaces=ifs, entry_points="")


def parts_program(n_ifaces):
    ms = [Method("instantiate", "inst", ()), Method("exec", "c_e", (Arg("a", "u32"),)),
          Method("query", "c_q", (Arg("a", "u32"),)), Method("sudo", "c_s", (Arg("a", "u32"),))]
    ifs = []
    for j in range(n_ifaces):
        ifs.append(iface(j, [Method("exec", "e%d" % j, (Arg("a", "u32"),)), Method("query", "q%d" % j, (Arg("a", "u32"),)),
                             Method("sudo", "s%d" % j, (Arg("a", "u32"),))], custom=("msg=Empty, query=Empty" if j % 2 == 0 else None)))
    return Contract(methods=tuple(ms), interfaces=tuple(ifs), entry_points="")


def programs(tier):
    """[(pid, Contract, tags)]"""
    out = []
    for rot in range(3):
        out.append(("pnames%d" % rot, names_program(rot, N_IN, "in"), {"names_in"}))
    out.append(("pnout0", names_program(0, N_OUT, "out"), {"names_out"}))
    out.append(("ptypes0", types_program(TYPES), {"types"}))
    out.append(("perr0", error_program(), {"errors"}))
    out.append(("psame0", samename_program(), {"samename"}))
    out.append(("preply0", reply_program(), {"reply"}))
    out.append(("plegacy0", legacy_reply_program(), {"reply", "legacy"}))
    out.append(("pprefix0", prefix_program(), {"parts", "prefix"}))
    out.append(("precase0", recase_program(), {"samename", "recase"}))
    out.append(("pctxmix0", ctxmix_program(), {"samename", "kinds", "ctxmix"}))
    out.append(("pinstnames0", instnames_program(), {"types", "argnames"}))
    out.append(("pitems0", items_program(), {"kinds", "items"}))
    out.append(("pmsgattr0", msgattr_program(), {"kinds", "msg_attr"}))
    out.extend(binder_programs())
    for n in (0, 1, 2):
        out.append(("pparts%d" % n, parts_program(n), {"parts"}))
    KS = ["exec", "query", "sudo"]
    if tier == "quick":
        kcfg = [((), tuple(KS), False), (tuple(KS), (), True), (("exec",), ("query",), False), (("sudo",), ("exec", "sudo"), True)]
    else:
        kcfg = []
        for n in range(4):
            for ck in itertools.combinations(KS, n):
                for m in range(4):
                    for ik in itertools.combinations(KS, m):
                        kcfg.append((ck, ik, (n + m) % 2 == 0))
        out.append(("pnout1", names_program(1, N_OUT, "out"), {"names_out"}))
        out.append(("pnout2", names_program(2, N_OUT, "out"), {"names_out"}))
        out.append(("ptypes1", types_program(TYPES_THOROUGH), {"types", "wide_ints"}))
        out.append(("pparts3", parts_program(3), {"parts"}))
    for j, (ck, ik, mg) in enumerate(kcfg):
        out.append(("pkinds%d" % j, kinds_program(ck, ik, mg), {"kinds"}))
    return out


# ---------------------------------------------------------------------------------------------
# model documents

def handlers(c, include_reply=False):
    """[(part label, part display, Method)] for all handlers of a program."""
    out = [("contract", c.name, m) for m in c.methods if include_reply or m.kind != "reply"]
    for i in c.interfaces:
        out.extend((i.module, i.name, m) for m in i.methods)
    return out


def value_tuples(m, limit=None):
    """All tuples of alphabet values for the method's arguments; values of same-typed arguments are
    pairwise distinct where the alphabet allows."""
    doms = []
    for a in m.args:
        doms.append(model.TYPE_VALUES[a.ty])
    size = 1
    for d in doms:
        size *= len(d)
    if size > 64:
        # many arguments: diagonal tuples (argument i takes its (v + i)-th value), every value of every argument occurs
        tuples = [tuple(d[(v + i) % len(d)] for i, d in enumerate(doms)) for v in range(max(len(d) for d in doms))]
        return tuples[:limit] if limit else tuples
    tuples = []
    for tup in itertools.product(*doms):
        ok = True
        for i in range(len(tup)):
            for j in range(i + 1, len(tup)):
                if m.args[i].ty == m.args[j].ty and tup[i] == tup[j] and len(model.TYPE_VALUES[m.args[i].ty]) > 1:
                    ok = False
        if ok:
            tuples.append(tup)
    return tuples[:limit] if limit else tuples


def body_json(m, tup):
    return "{" + ",".join("%s:%s" % (json.dumps(bare(a.name)), v) for a, v in zip(m.args, tup)) + "}"


def doc(m, tup):
    """The JSON document the property names for handler m with argument values tup."""
    if m.kind in ("instantiate", "migrate"):
        return body_json(m, tup)
    return "{%s:%s}" % (json.dumps(bare(m.name)), body_json(m, tup))


def expected_echo(part_disp, m, tup, ctx):
    """Model of the echo record for a handler invoked with the given arguments in ctx."""
    has_info = m.kind in ("instantiate", "exec")
    return {
        "h": "%s::%s" % (part_disp, bare(m.name)),
        "args": {bare(a.name): json.loads(v) for a, v in zip(m.args, tup)},
        "sender": ctx["sender"] if has_info else None,
        "funds": [list(f) for f in ctx["funds"]] if has_info else None,
        "height": ctx["height"],
        "tx": ctx.get("tx", 3),
        "contract": ctx["contract"],
        "seen": ctx["storage"].get("probe"),
        "api_ok": ctx["api_prefix"] == "cosmwasm",
        "bal": ctx["balance"],
    }


# ---------------------------------------------------------------------------------------------
# corpus

_CACHE = {}


ASSOC_CONC = {"Self::LeftT": "u32", "Self::MidT": "bool", "Self::RightT": "String"}


def assoc_programs():
    """Contracts implementing an interface with three associated types, its handlers first using them in declaration order
    (passoc_fwd) and in another order (passoc_rev); arguments are typed by the associated types (ASSOC_CONC gives the contract's choice)."""
    B = "sylvia::serde::Serialize + sylvia::serde::de::DeserializeOwned + std::fmt::Debug + Clone + PartialEq + sylvia::schemars::JsonSchema"
    ms = (Method("exec", "set_left", (Arg("l", "Option<Self::LeftT>"), Arg("m", "Self::MidT"))), Method("exec", "set_right", (Arg("r", "Self::RightT"), Arg("l", "Self::LeftT"))),
          Method("query", "get_left", (Arg("y", "Option<Self::LeftT>"),)), Method("query", "get_both", (Arg("x", "Self::RightT"), Arg("m", "Self::MidT"))),
          Method("sudo", "poke", (Arg("z", "Self::MidT"), Arg("w", "Self::LeftT"))))
    out = []
    for pid, order in (("passoc_fwd", ms), ("passoc_rev", tuple(reversed(ms)))):
        i0 = Interface(name="Ifg", module="ifg", assoc=(("LeftT", B), ("MidT", B), ("RightT", B)), custom="msg=Empty, query=Empty",
                       assoc_impl=(("LeftT", "u32"), ("MidT", "bool"), ("RightT", "String")), methods=order)
        out.append((pid, Contract(methods=(Method("instantiate", "inst", ()), Method("exec", "own", ())), interfaces=(i0,), entry_points=""), {"assoc"}))
    return out


def concrete_method(m):
    """The handler with the associated types replaced by the contract's choice."""
    import re as _re
    args = []
    for a in m.args:
        t = a.ty
        for k, v in ASSOC_CONC.items():
            t = _re.sub(r"(?<![\w:])%s\b" % _re.escape(k), v, t)
        args.append(Arg(a.name, t))
    return Method(m.kind, m.name, tuple(args), qret=m.qret, body=m.body)


def corpus(tier, which="basic"):
    """Builds (once per process) the basic corpus (or the `assoc` mini-corpus); returns (Corpus, {pid: (Contract, tags, e1names)})."""
    key = tier if which == "basic" else which
    if key in _CACHE:
        return _CACHE[key]
    progs = programs(tier) if which == "basic" else assoc_programs()
    # E1 pass: read invented identifiers (constructors) from the real expansion
    recs = []
    for pid, c, tags in progs:
        recs.append(model.e1_contract_record(pid + ":ct", c, want="items"))
        for i in c.interfaces:
            recs.append(model.e1_interface_record(pid + ":" + i.module, i, want="items"))
    obs = {o["id"]: o for o in core.e1_run(recs, which + "-" + tier)}
    cp = e2.Corpus(which + "-" + tier)
    info = {}
    rejected = {}
    for pid, c, tags in progs:
        names = {}
        o = obs[pid + ":ct"]
        bad_o = next((x for x in [o] + [obs[pid + ":" + i.module] for i in c.interfaces] if x.get("dirty") or x.get("panic") or x.get("has_compile_error")), None)
        if bad_o is not None:
            # a program the model calls valid that the macro itself rejects: reported like a compile failure (never a crash of the check)
            rejected[pid] = [{"code": None, "message": "rejected by the macro (%s): %s" % (bad_o["id"], bad_o.get("panic") or (bad_o.get("compile_errors") or ["diagnostic emitted"])[0]),
                              "lines": [], "rendered": ""}]
            info[pid] = (c, tags, names)
            continue
        for k, fns in e2.e1_names(o).items():
            names[("contract", k)] = fns
        for i in c.interfaces:
            for k, fns in e2.e1_names(obs[pid + ":" + i.module]).items():
                names[(i.module, k)] = fns
        glue = e2.subject_impl(e2.basic_glue(c, names))
        cp.add(pid, e2.render_program(pid, c, glue=glue))
        info[pid] = (c, tags, names)
    cp.write()
    cp.build()
    cp.failed.update(rejected)
    _CACHE[key] = (cp, info)
    return _CACHE[key]


def e1_records(tier):
    recs = []
    for pid, c, tags in programs("quick"):
        recs.append(model.e1_contract_record("basic:" + pid + ":ct", c))
        for i in c.interfaces:
            recs.append(model.e1_interface_record("basic:" + pid + ":" + i.module, i))
    return recs


def report_failed(res, cp, what="basic"):
    """A corpus program the model calls valid that rustc rejects is a violation of every property whose corpus it is."""
    for pid, diags in sorted(cp.failed.items()):
        res.violation({"kind": "compile", "cls": "valid_program_rejected", "pid": pid, "diags": diags[:3], "codes": sorted(set(d["code"] for d in diags if d.get("code"))),
                       "what": "%s corpus program %s (valid by the model) does not compile against the current tree: %s %s" % (what, pid, diags[0].get("code"), diags[0]["message"][:300])})
