"""Family `reply`: reply-handler tables, their reference model (DESIGN.md appendix A), and the
compiled corpus used by C07, C08, C09 (and C14 / C18 for acceptance)."""
import base64
import itertools
import json
from dataclasses import dataclass, field

from . import core, model, e2
from .model import Method, Arg, Contract

DATA_MODES = ["none", "raw", "raw,opt", "typed", "opt", "instantiate", "instantiate,opt"]
INST_TY = "sylvia::cw_utils::MsgInstantiateContractResponse"


@dataclass(frozen=True)
class RM:
    """One reply method."""
    fn: str
    handlers: tuple = None          # None = no `handlers=` parameter (name = fn)
    on: str = None                  # success | error | always | None (= default always)
    data: str = "none"              # data mode (success only)
    data_ty: str = "String"         # T for typed modes
    payload: tuple = ("raw",)       # ("raw",) or tuple of type texts
    raw_marked: bool = True         # whether the raw Binary payload carries #[sv::payload(raw)]
    pnames: tuple = None            # names of the typed payload parameters (default p0, p1, ...)
    dname: str = None               # name of the leading data / error / result parameter (default data / error / result)
    data_flags: str = None          # literal flag list for sv::data (same mode, other spelling / order)

    def outcome(self):
        return self.on or "always"

    def names(self):
        return list(self.handlers) if self.handlers else [self.fn]


def data_param_ty(rm):
    return {"raw": "Binary", "raw,opt": "Option<Binary>", "typed": rm.data_ty, "opt": "Option<%s>" % rm.data_ty,
            "instantiate": INST_TY, "instantiate,opt": "Option<%s>" % INST_TY}[rm.data]


def data_attr(rm):
    if rm.data_flags is not None:
        return "#[sv::data(%s)]" % rm.data_flags
    return {"raw": "#[sv::data(raw)]", "raw,opt": "#[sv::data(raw, opt)]", "typed": "#[sv::data]", "opt": "#[sv::data(opt)]",
            "instantiate": "#[sv::data(instantiate)]", "instantiate,opt": "#[sv::data(instantiate, opt)]"}[rm.data]


def to_method(rm, label="Ct"):
    args = []
    echo = []
    o = rm.outcome()
    if o == "success":
        if rm.data != "none":
            dn = rm.dname or "data"
            args.append(Arg(dn, data_param_ty(rm), (data_attr(rm),)))
            echo.append(('("data", vsupport::jdbg(&%s))' if "instantiate" in rm.data else '("data", vsupport::js(&%s))') % dn)
    elif o == "error":
        dn = rm.dname or "error"
        args.append(Arg(dn, "String"))
        echo.append('("error", vsupport::js(&%s))' % dn)
    else:
        dn = rm.dname or "result"
        args.append(Arg(dn, "SubMsgResult"))
        echo.append('("result", vsupport::js(&%s))' % dn)
    if rm.payload == ("raw",):
        args.append(Arg("payload", "Binary", ("#[sv::payload(raw)]",) if rm.raw_marked else ()))
        echo.append('("payload", vsupport::js(&payload))')
    else:
        for j, t in enumerate(rm.payload):
            pn = rm.pnames[j] if rm.pnames else "p%d" % j
            args.append(Arg(pn, t))
            echo.append('("p%d", vsupport::js(&%s))' % (j, pn))
    mp = ""
    if rm.handlers is not None:
        mp += ", handlers=[%s]" % ", ".join(rm.handlers)
    if rm.on is not None:
        mp += ", reply_on=%s" % rm.on
    body = '{ vsupport::echo_reply("%s::%s", ctx, vec![%s]) }' % (label, rm.fn, ", ".join(echo))
    return Method("reply", rm.fn, tuple(args), msg_params=mp, body=body)


def contract_of(rms, extra_methods=(), error=None, entry_points=""):
    ms = [Method("instantiate", "inst", ())] + list(extra_methods) + [to_method(r) for r in rms]
    return Contract(methods=tuple(ms), features="replies", error=error, entry_points=entry_points)


# ---------------------------------------------------------------------------------------------
# reference model

def excludes(a, b):
    return a == b or a == "always" or b == "always"


def payload_sig(rm):
    return tuple(rm.payload)


def table_model(rms):
    """Returns (valid, reason, names) where names is an ordered dict name -> {outcome: RM} in order
    of first appearance (the order ids are assigned in)."""
    names = {}
    for rm in rms:
        hs = rm.names()
        if len(set(hs)) != len(hs):
            return False, "name listed twice on one method", names
        for n in hs:
            cur = names.setdefault(n, {})
            o = rm.outcome()
            for o2, other in cur.items():
                if excludes(o, o2):
                    return False, "duplicated reply handler for `%s` (%s vs %s)" % (n, o2, o), names
                if len(payload_sig(other)) != len(payload_sig(rm)):
                    return False, "merged methods of `%s` differ in payload arity" % n, names
                if payload_sig(other) != payload_sig(rm):
                    return False, "merged methods of `%s` differ in payload types" % n, names
            cur[o] = rm
    return True, None, names


def builder_reply_on(entry):
    if "always" in entry or ("success" in entry and "error" in entry):
        return "always"
    return "success" if "success" in entry else "error"


def route(entry, ok):
    """Which method handles a reply for this name with the given outcome, or None (pass-through)."""
    if ok:
        return entry.get("success") or entry.get("always")
    return entry.get("error") or entry.get("always")


# ---------------------------------------------------------------------------------------------
# table grammar (shared with C14 / C18)

def method_options():
    for hs in (None, ("h",), ("g",), ("h", "g")):
        for on in ("success", "error", "always", None):
            yield hs, on


def tables(max_methods):
    """All ordered tables of <= max_methods methods over the method options."""
    opts = list(method_options())
    for n in range(1, max_methods + 1):
        for combo in itertools.product(opts, repeat=n):
            yield tuple(RM(fn="r%d" % j, handlers=hs, on=on) for j, (hs, on) in enumerate(combo))


# ---------------------------------------------------------------------------------------------
# Reply documents

def b64(b):
    return base64.b64encode(b).decode()


def reply_doc(rid, payload=b"", gas_used=0, ok=True, events=(), data=None, msg_responses=(), error="boom"):
    if ok:
        result = {"ok": {"events": list(events), "data": (b64(data) if data is not None else None), "msg_responses": list(msg_responses)}}
    else:
        result = {"error": error}
    return json.dumps({"id": rid, "payload": b64(payload), "gas_used": gas_used, "result": result}, separators=(",", ":"))


EVENTS = [{"type": "wasm", "attributes": [{"key": "k", "value": "v"}]}, {"type": "ev2", "attributes": []}]
MSG_RESPONSES = [{"type_url": "/x.Y", "value": b64(b"\x01\x02")}]


def pb_varint(n):
    out = b""
    while True:
        b = n & 0x7f
        n >>= 7
        if n:
            out += bytes([b | 0x80])
        else:
            out += bytes([b])
            return out


def execute_envelope(inner):
    """MsgExecuteContractResponse { bytes data = 1; }"""
    if inner is None:
        return b""
    return b"\x0a" + pb_varint(len(inner)) + inner


def instantiate_envelope(addr, inner=None):
    """MsgInstantiateContractResponse { string contract_address = 1; bytes data = 2; }"""
    out = b"\x0a" + pb_varint(len(addr)) + addr.encode()
    if inner is not None:
        out += b"\x12" + pb_varint(len(inner)) + inner
    return out


# ---------------------------------------------------------------------------------------------
# compiled corpus

def glue_for(c, rms, names_order, consts=None):
    """basic glue + ops for the reply family: `submsg` (builders) and `ids`."""
    arms = e2.basic_glue(c, None)
    sub = []
    valid, _, names = table_model(rms)
    for n, entry in names.items():
        rm = next(iter(entry.values()))
        if rm.payload == ("raw",):
            args = "vsupport::arg::<cw_std::Binary>(&a[0])"
        else:
            args = ", ".join("vsupport::arg(&a[%d])" % j for j in range(len(rm.payload)))
        sub.append('("%s", "submsg") => vsupport::jres(vsupport::base_submsg(&c.extra).%s(%s)),' % (n, n, args))
        sub.append('("%s", "wasm") => vsupport::jres(sv::SubMsgMethods::<Empty>::%s(vsupport::base_wasm(), %s)),' % (n, n, args))
        sub.append('("%s", "cosmos") => vsupport::jres(vsupport::base_cosmos().%s(%s)),' % (n, n, args))
    arms.append('"submsg" => { use sv::SubMsgMethods; let a: Vec<Value> = vsupport::args_of(&c.input); match (c.extra["name"].as_str().unwrap_or(""), c.extra["recv"].as_str().unwrap_or("")) {\n            %s\n            _ => json!({"machinery": "bad submsg"}),\n        } },' % "\n            ".join(sub))
    arms.append('"bases" => json!({"wasm": vsupport::jv(&CosmosMsg::<Empty>::from(vsupport::base_wasm())), "cosmos": vsupport::jv(&vsupport::base_cosmos()), "submsg": vsupport::jv(&vsupport::base_submsg(&c.extra))}),')
    ids = ", ".join('("%s", sv::%s)' % (n, (consts or {}).get(n) or const_name(n)) for n in names)
    arms.append('"ids" => { let v: Vec<(&str, u64)> = vec![%s]; json!(v) },' % ids)
    return e2.subject_impl(arms)


def const_name(n):
    """Name of the id constant — read from E1 when available; this fallback mirrors UPPER_SNAKE for plain names."""
    return n.upper() + "_REPLY_ID"


def quick_programs():
    """[(pid, [RM], tags)] — packed programs: independent names share a program."""
    out = []
    # data modes (success-only, raw payload) + typed data types
    rms = []
    for k, mode in enumerate(DATA_MODES):
        rms.append(RM(fn="d%d" % k, on="success", data=mode, data_ty="String"))
    rms.append(RM(fn="d7", on="success", data="typed", data_ty="u32"))
    rms.append(RM(fn="d8", on="success", data="opt", data_ty="Inner"))
    rms.append(RM(fn="d9", on="success", data="typed", data_ty="Inner", payload=("u32",)))
    # a nullable data type in the mandatory typed mode; flags written in the other order
    rms.append(RM(fn="d10", on="success", data="typed", data_ty="Option<String>"))
    rms.append(RM(fn="d11", on="success", data="instantiate,opt", data_flags="opt, instantiate"))
    rms.append(RM(fn="d12", on="success", data="raw,opt", data_flags="opt, raw"))
    rms.append(RM(fn="d13", on="success", data="opt", data_ty="Option<String>"))
    out.append(("rmodes", rms, {"modes"}))
    # table shapes
    rms = [RM(fn="s_only", on="success"), RM(fn="e_only", on="error"), RM(fn="alw", on="always"), RM(fn="dflt", on=None),
           RM(fn="both_s", handlers=("both",), on="success", data="raw,opt"), RM(fn="both_e", handlers=("both",), on="error"),
           RM(fn="multi_s", handlers=("m1", "m2"), on="success"), RM(fn="m1_e", handlers=("m1",), on="error"),
           RM(fn="multi_a", handlers=("m3", "m4"), on="always"),
           # a method that completes another method's pair with its first name and opens a name of its own with its second
           RM(fn="sw_ok", handlers=("swap",), on="success"), RM(fn="sw_fail", handlers=("swap", "refund"), on="error")]
    out.append(("rtables", rms, {"tables"}))
    # payload signatures
    rms = [RM(fn="p_raw", on="always"), RM(fn="p_one", on="always", payload=("u32",)), RM(fn="p_two", on="always", payload=("u32", "String")),
           RM(fn="p_three", on="success", payload=("Inner", "Option<u32>", "Vec<String>"), data="raw,opt"),
           RM(fn="p_str", on="error", payload=("String",)), RM(fn="p_unit", on="always", payload=("()",)),
           RM(fn="ps", handlers=("pboth",), on="success", payload=("u64", "bool")), RM(fn="pe", handlers=("pboth",), on="error", payload=("u64", "bool")),
           # payload parameters named like the locals / fields of the generated builder and dispatcher
           RM(fn="p_named", on="always", payload=("u64", "String"), pnames=("id", "reply_on")),
           RM(fn="p_named2", on="success", payload=("u64", "String", "u32"), pnames=("msg", "gas_limit", "payload"), data="raw,opt"),
           RM(fn="p_named3", on="error", payload=("String", "u64"), pnames=("result", "gas_used"))]
    out.append(("rpayload", rms, {"payload"}))
    # payload parameters named like every local of the generated dispatcher / builder, for each outcome
    LOCALS = ["id", "payload", "gas_used", "result", "deps", "env", "msg", "data", "events", "msg_responses", "error", "sub_msg_resp", "contract", "resp", "reply_on"]
    rms = []
    for n in LOCALS:
        rms.append(RM(fn="s_" + n, on="success", payload=("u64",), pnames=(n,)))
        if n != "error":
            rms.append(RM(fn="e_" + n, on="error", payload=("u64", "String"), pnames=(n, "other")))
        if n != "result":
            rms.append(RM(fn="a_" + n, on="always", payload=("u64",), pnames=(n,)))
        # the same payload name next to a data parameter (which then carries another name)
        rms.append(RM(fn="sd_" + n, on="success", payload=("u64", "String"), pnames=(n, "tail"), data="raw,opt", dname="lead_arg"))
        # leading parameters named like the locals, too
        if n not in ("payload",):
            rms.append(RM(fn="le_" + n, on="error", payload=("u64",), pnames=("tail",), dname=n))
    out.append(("rpnames", rms, {"payload", "pnames"}))
    # declaration orders of a success/error pair (error first is where a merge shortcut shows)
    out.append(("rorder_se", [RM(fn="on_s", handlers=("x",), on="success", data="raw,opt"), RM(fn="on_e", handlers=("x",), on="error")], {"order"}))
    out.append(("rorder_es", [RM(fn="on_e", handlers=("x",), on="error"), RM(fn="on_s", handlers=("x",), on="success", data="raw,opt")], {"order"}))
    out.append(("rorder_es_nodata", [RM(fn="on_e", handlers=("x",), on="error"), RM(fn="on_s", handlers=("x",), on="success")], {"order"}))
    # a success/error pair where only one of the two methods marks the Binary payload `#[sv::payload(raw)]` (the payload then travels raw
    # for both), in both declaration orders and with the data parameter on either side of the marking
    out.append(("rrawmix", [RM(fn="m1_s", handlers=("mix1",), on="success", data="raw,opt", raw_marked=False), RM(fn="m1_e", handlers=("mix1",), on="error"),
                            RM(fn="m2_e", handlers=("mix2",), on="error", raw_marked=False), RM(fn="m2_s", handlers=("mix2",), on="success", data="raw,opt"),
                            RM(fn="m3_s", handlers=("mix3",), on="success"), RM(fn="m3_e", handlers=("mix3",), on="error", raw_marked=False),
                            RM(fn="m4_e", handlers=("mix4",), on="error"), RM(fn="m4_s", handlers=("mix4",), on="success", data="raw,opt", raw_marked=False)], {"payload", "order"}))
    return out


def thorough_programs():
    out = list(quick_programs())
    seen = set()
    k = 0
    for tab in tables(3):
        valid, _, names = table_model(tab)
        if not valid:
            continue
        # canonical key up to fn names
        key = tuple((r.handlers, r.on) for r in tab)
        if key in seen:
            continue
        seen.add(key)
        out.append(("rt%04d" % k, list(tab), {"grammar"}))
        k += 1
    # every data mode x data type x payload kind
    for mi, mode in enumerate(DATA_MODES[1:]):
        for ti, ty in enumerate(["String", "u32", "Inner"]):
            for pi, pl in enumerate([("raw",), ("u32",), ("String", "Inner")]):
                out.append(("rm%d_%d_%d" % (mi, ti, pi), [RM(fn="h", on="success", data=mode, data_ty=ty, payload=pl)], {"modes"}))
    return out


_CACHE = {}


def corpus(tier, features="full"):
    key = (tier, features)
    if key in _CACHE:
        return _CACHE[key]
    progs = quick_programs() if (tier == "quick" or features != "full") else thorough_programs()
    cp = e2.Corpus("reply-" + tier if features == "full" else "replymin-" + tier, features=features)
    info = {}
    rejected = {}
    obs = {o["id"]: o for o in core.e1_run([model.e1_contract_record(pid, contract_of(rms), want="items") for pid, rms, tags in progs], "reply-" + tier + features)}
    for pid, rms, tags in progs:
        valid, why, names = table_model(rms)
        if not valid:
            raise core.MachineryError("reply corpus program %s is invalid by the model: %s" % (pid, why))
        c = contract_of(rms)
        o = obs[pid]
        if o.get("dirty") or o.get("panic") or o.get("has_compile_error"):
            rejected[pid] = [{"code": None, "message": "rejected by the macro: %s" % (o.get("panic") or (o.get("compile_errors") or ["diagnostic emitted"])[0]), "lines": [], "rendered": ""}]
            info[pid] = (c, rms, tags, names)
            continue
        _, items = model.sv_items(o)
        cnames = [it["name"] for it in items if it.get("k") == "const" and it["name"].endswith("_REPLY_ID")]
        if len(cnames) != len(names):
            rejected[pid] = [{"code": None, "message": "the expansion declares %d reply id constants (%s) for %d handler names (%s)" % (len(cnames), cnames, len(names), list(names)),
                              "lines": [], "rendered": ""}]
            info[pid] = (c, rms, tags, names)
            continue
        consts = dict(zip(names.keys(), cnames))
        cp.add(pid, e2.render_program(pid, c, glue=glue_for(c, rms, names, consts)))
        info[pid] = (c, rms, tags, names)
    cp.write()
    cp.build()
    cp.failed.update(rejected)
    _CACHE[key] = (cp, info)
    return _CACHE[key]


def e1_records(tier):
    recs = []
    for pid, rms, tags in quick_programs():
        recs.append(model.e1_contract_record("reply:" + pid, contract_of(rms)))
    return recs
