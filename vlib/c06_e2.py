"""Compiled part of C06 (filled in once the E2 engine exists)."""


def run_into(res, tier):
    return
