"""Compiled part of C06: every emitted entry point forwards exactly like direct dispatch; an
overridden kind is served by the override in the multitest impl and nowhere else."""
import itertools
import json

from . import core, model, e2, fam_basic
from .model import Method, Arg, Contract

KINDS6 = ["instantiate", "exec", "query", "sudo", "migrate", "reply"]

OVR_MOD = """
pub mod ovr {
    use super::*;
    pub type InstantiateMsgX = super::sv::InstantiateMsg;
    pub type ExecMsgX = super::sv::ContractExecMsg;
    pub type QueryMsgX = super::sv::ContractQueryMsg;
    pub type SudoMsgX = super::sv::ContractSudoMsg;
    pub type MigrateMsgX = super::sv::MigrateMsg;
    pub type ReplyMsgX = Reply;
    pub fn instantiate_ep(_d: cw_std::DepsMut, _e: cw_std::Env, _i: cw_std::MessageInfo, _m: InstantiateMsgX) -> StdResult<Response> { Ok(Response::new().add_attribute("override", "instantiate")) }
    pub fn exec_ep(_d: cw_std::DepsMut, _e: cw_std::Env, _i: cw_std::MessageInfo, _m: ExecMsgX) -> StdResult<Response> { Ok(Response::new().add_attribute("override", "exec")) }
    pub fn query_ep(_d: cw_std::Deps, _e: cw_std::Env, _m: QueryMsgX) -> StdResult<Binary> { cw_std::to_json_binary("override:query") }
    pub fn sudo_ep(_d: cw_std::DepsMut, _e: cw_std::Env, _m: SudoMsgX) -> StdResult<Response> { Ok(Response::new().add_attribute("override", "sudo")) }
    pub fn migrate_ep(_d: cw_std::DepsMut, _e: cw_std::Env, _m: MigrateMsgX) -> StdResult<Response> { Ok(Response::new().add_attribute("override", "migrate")) }
    pub fn reply_ep(_d: cw_std::DepsMut, _e: cw_std::Env, _m: ReplyMsgX) -> StdResult<Response> { Ok(Response::new().add_attribute("override", "reply")) }
}
"""


def program(over):
    ms = [Method("instantiate", "inst", (Arg("a", "u32"),)),
          Method("migrate", "mig", (Arg("v", "u32"),)),
          Method("exec", "foo", (Arg("x", "u32"), Arg("y", "String"))),
          Method("exec", "bar", ()),
          Method("query", "get_x", (Arg("k", "u32"),)),
          Method("sudo", "sd", (Arg("z", "bool"),)),
          Method("reply", "rp", (Arg("result", "SubMsgResult"), Arg("payload", "Binary", ("#[sv::payload(raw)]",))))]
    overrides = tuple("%s=ovr::%s_ep(ovr::%sMsgX)" % (k, k, k.capitalize()) for k in KINDS6 if k in over)
    return Contract(methods=tuple(ms), overrides=overrides, features="replies", entry_points="")


def subsets(tier):
    if tier == "thorough":
        for n in range(7):
            for s in itertools.combinations(KINDS6, n):
                yield frozenset(s)
    else:
        yield frozenset()
        for k in KINDS6:
            yield frozenset([k])
        yield frozenset(KINDS6)
        yield frozenset(["exec", "query"])
        yield frozenset(["instantiate", "query"])
        yield frozenset(["sudo", "migrate", "reply"])
        yield frozenset(k for k in KINDS6 if k != "query")


def pid_of(over):
    return "pov_" + ("_".join(k[:3] for k in KINDS6 if k in over) or "none")


def programs(tier):
    return [(pid_of(o), program(o)) for o in subsets(tier)]


def render(pid, c, fw="sylvia"):
    glue = e2.subject_impl(e2.basic_glue(c, None))
    text = e2.render_program(pid, c, fw=fw, glue=glue)
    return text.replace("pub struct Ct;", OVR_MOD + "\npub struct Ct;", 1)


# monkey-patch friendly: the renamed corpus renders through e2.render_program, so the override module is spliced there too
_orig_render = e2.render_program


def _render_with_ovr(pid, c, fw="sylvia", style="echo", glue=""):
    text = _orig_render(pid, c, fw=fw, style=style, glue=glue)
    if c.overrides and "pub mod ovr" not in text and any("ovr::" in o for o in c.overrides):
        text = text.replace("pub struct Ct;", OVR_MOD + "\npub struct Ct;", 1)
    return text


e2.render_program = _render_with_ovr


_CORPUS = {}


def corpus(tier):
    """(Corpus, [(overridden kinds, pid, Contract)]) — built once per process."""
    if tier not in _CORPUS:
        cp = e2.Corpus("override-" + tier)
        progs = [(o, pid_of(o), program(o)) for o in subsets(tier)]
        for over, pid, c in progs:
            cp.add(pid, e2.render_program(pid, c, glue=e2.subject_impl(e2.basic_glue(c, None))))
        cp.write()
        cp.build()
        _CORPUS[tier] = (cp, progs)
    return _CORPUS[tier]


def run_into(res, tier):
    cp, progs = corpus(tier)
    from .fam_reply import reply_doc
    cases, exp = [], []
    for over, pid, c in progs:
        if pid in cp.failed:
            res.violation({"kind": "compile", "cls": "override_program_rejected", "pid": pid, "over": sorted(over), "diags": cp.failed[pid][:3],
                           "what": "%s: contract overriding %s does not compile: %s" % (pid, sorted(over), cp.failed[pid][0]["message"])})
            continue
        for (label, disp, m) in fam_basic.handlers(c, include_reply=True):
            if m.kind == "reply":
                docs = [reply_doc(0, b"pl", 3, True, [], None, []), reply_doc(0, b"", 0, False)]
            else:
                docs = [fam_basic.doc(m, t) for t in fam_basic.value_tuples(m)[:3]]
            for d in docs:
                for cx in (fam_basic.CONTEXTS[1], fam_basic.FAIL_CONTEXTS[0]):
                    for op in ("ep", "mt", "dispatch"):
                        if op == "dispatch" and m.kind == "reply":
                            continue
                        part = "wrapper" if m.kind in ("exec", "query", "sudo") else "contract"
                        cases.append({"prog": pid, "op": op, "kind": m.kind, "part": part if op == "dispatch" else "", "input": d, "ctx": cx})
                        exp.append((over, pid, m, d, cx, op))
    obs = cp.run_cases(cases)
    by = {}
    for case, e, o in zip(cases, exp, obs):
        over, pid, m, d, cx, op = e
        by[(pid, m.kind, d, json.dumps(cx, sort_keys=True), op)] = o
    for case, e, o in zip(cases, exp, obs):
        over, pid, m, d, cx, op = e
        if op == "dispatch":
            continue
        res.add(states=1, transitions=1, traces=1, evaluations=1)
        res.mark_nontrivial("e2:%s|%s|%s|%s" % (pid, m.kind, d, op))
        direct = by.get((pid, m.kind, d, json.dumps(cx, sort_keys=True), "dispatch"))
        overridden = m.kind in over

        def bad(what, cls):
            res.violation({"kind": "forwarding", "cls": cls, "pid": pid, "over": sorted(over), "entry": m.kind, "via": op, "doc": d, "ctx": cx, "obs": o, "direct": direct,
                           "what": "%s (overridden: %s) %s %s with %s: %s" % (pid, sorted(over), m.kind, "entry point" if op == "ep" else "multitest entry", d, what)})
        if "panic" in o:
            bad("panic %s" % o["panic"], "panic")
            continue
        if op == "ep":
            if overridden:
                if not o.get("absent"):
                    bad("an entry point was generated although the kind is overridden", "not_absent")
                continue
            if o.get("absent"):
                bad("no entry point generated although the kind is not overridden", "absent")
                continue
            if m.kind == "reply":
                ref = by.get((pid, m.kind, d, json.dumps(cx, sort_keys=True), "mt"))
                if not ("reply" in over):
                    for fld in ("res", "resp", "storage"):
                        if o.get(fld) != ref.get(fld):
                            bad("%s differs from the multitest reply path" % fld, "reply_diff")
                continue
            for fld in ("res", "resp", "bin", "storage", "err"):
                if o.get(fld) != direct.get(fld):
                    bad("%s differs from direct dispatch: %s vs %s" % (fld, json.dumps(o.get(fld))[:300], json.dumps(direct.get(fld))[:300]), "forward_" + fld)
                    break
            res.outcome(("forward", m.kind, o.get("res")))
        else:
            marker = None
            if o.get("res") == "ok":
                if "resp" in o:
                    marker = next((a["value"] for a in o["resp"].get("attributes", []) if a["key"] == "override"), None)
                elif o.get("bin") == '"override:query"':
                    marker = "query"
            res.outcome(("mt", overridden, marker))
            if overridden and marker != m.kind:
                bad("multitest entry of an overridden kind did not reach its override (marker %s)" % marker, "mt_override_missed")
            if not overridden and marker is not None:
                bad("multitest entry of a non-overridden kind reached the `%s` override" % marker, "mt_foreign_override")
            if not overridden and m.kind != "reply":
                for fld in ("res", "resp", "bin", "storage"):
                    if o.get(fld) != direct.get(fld):
                        bad("%s differs from direct dispatch" % fld, "mt_diff")
                        break
    res.parts["e2_override_programs"] = len(progs)
    res.parts["e2_cases"] = len(cases)
