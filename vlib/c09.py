"""C09 — reply data is extracted according to the declared data mode."""
import json

from . import core, model, fam_basic, fam_reply, c07
from .fam_reply import b64, reply_doc, execute_envelope, instantiate_envelope, pb_varint


# --- mirror of the response-envelope format (cw-utils' manual protobuf reader) --------------
class PbErr(Exception):
    pass


def pb_len_prefixed(data, field):
    if not data:
        return b"", b""
    tag = data[0]
    wire, f = tag & 0b11, tag >> 3
    if f != field:
        raise PbErr("invalid field")
    if wire != 2:
        raise PbErr("invalid wire type")
    rest = data[1:]
    ln, i = 0, 0
    while True:
        if i >= 9:
            raise PbErr("varint too long")
        if i >= len(rest):
            raise PbErr("varint too short")
        ln += (rest[i] & 0x7f) << (7 * i)
        if rest[i] & 0x80 == 0:
            break
        i += 1
    rest = rest[i + 1:]
    if len(rest) < ln:
        raise PbErr("message too short")
    return rest[:ln], rest[ln:]


def parse_execute(data):
    inner, _ = pb_len_prefixed(data, 1)
    return inner if inner else None


def parse_instantiate(data):
    addr, rest = pb_len_prefixed(data, 1)
    try:
        addr = addr.decode("utf-8")
    except UnicodeDecodeError:
        raise PbErr("utf8")
    inner, _ = pb_len_prefixed(rest, 2)
    return addr, (inner if inner else None)


def json_as(ty, raw):
    """Decodes inner JSON bytes as the data type; returns (ok, value)."""
    try:
        text = raw.decode("utf-8")
        v = json.loads(text)
    except Exception:
        return False, None
    if ty == "String":
        return isinstance(v, str), v
    if ty == "Option<String>":
        return (v is None or isinstance(v, str)), v
    if ty == "u32":
        return (isinstance(v, int) and not isinstance(v, bool) and 0 <= v < 2 ** 32 and "." not in text and "e" not in text.lower()), v
    if ty == "Inner":
        ok = isinstance(v, dict) and set(v) <= {"n", "o"} and "n" in v and isinstance(v["n"], int) and not isinstance(v["n"], bool) and 0 <= v["n"] < 2 ** 32 \
            and (v.get("o") is None or isinstance(v.get("o"), str))
        if ok:
            v = {"n": v["n"], "o": v.get("o")}
        return ok, v
    raise core.MachineryError("no JSON model for " + ty)


def expected(rm, data):
    """('deliver', value) | ('error', needle or None).  value is what the echo shows for `data`."""
    mode = rm.data
    if mode == "none":
        return ("deliver", "<absent-param>")
    opt = mode.endswith("opt")
    if data is None:
        return ("deliver", None) if opt else ("error", "Missing reply data field.")
    if mode.startswith("raw"):
        return ("deliver", b64(data))
    if mode.startswith("instantiate"):
        try:
            addr, inner = parse_instantiate(data)
        except PbErr:
            return ("error", None)
        return ("deliver", ("inst", addr, inner))
    try:
        inner = parse_execute(data)
    except PbErr:
        return ("error", None)
    if inner is None:
        return ("error", "Missing reply data field.")
    ok, v = json_as(rm.data_ty, inner)
    if not ok:
        return ("error", None)
    return ("deliver", v)


def data_cases(rm, tier):
    """[(label, bytes or None)]"""
    out = [("absent", None)]
    mode = rm.data
    if mode in ("none",) or mode.startswith("raw"):
        out += [("bytes", b"\x00\xffraw"), ("empty_bytes", b""), ("json_like", b'{"a":1}')]
        return out
    if mode.startswith("instantiate"):
        goods = [instantiate_envelope("addr1"), instantiate_envelope("addr1", b"\x01\x02"), instantiate_envelope("", b"x"), instantiate_envelope("a" * 200, b"y" * 300)]
        base = goods[1]
        bads = [b"", b"\x08\x01", b"\x12\x01x", b"\x0a\x05ab", base + b"\x00\x01", b"\x0a\x02\xff\xfe", b"\x0a\x01a\x10\x01", b"\x0a\x01a\x12\x05xy",
                b"\x0a" + b"\xff" * 9 + b"\x01", b"\x0a\x01a\x12\x00"]
        cuts = [base[:k] for k in range(1, len(base))]
        return out + [("good%d" % i, g) for i, g in enumerate(goods)] + [("bad%d" % i, b) for i, b in enumerate(bads)] + [("cut%d" % i, c) for i, c in enumerate(cuts)]
    vals = model.TYPE_VALUES[rm.data_ty]
    goods = [execute_envelope(v.encode()) for v in vals]
    v0 = vals[-1].encode()
    base = execute_envelope(v0)
    wrong = {"Option<String>": [b"7", b"[]", b"{}"], "String": [b"7", b"null", b"[]"], "u32": [b'"x"', b"-1", b"4294967296", b"1.5", b"null"], "Inner": [b"{}", b'{"n":"x","o":null}', b'{"o":"s"}', b"[]"]}[rm.data_ty]
    bads = [b"", b"\x0a\x00", b"\x08\x01", b"\x12\x01x", b"\x0b\x01x", v0, base + b"\x00\x01", b"\x0a" + b"\xff" * 9 + b"\x01", b"\x0a\x7f" + v0]
    out += [("good%d" % i, g) for i, g in enumerate(goods)]
    out += [("bad%d" % i, b) for i, b in enumerate(bads)]
    out += [("wrongtype%d" % i, execute_envelope(w)) for i, w in enumerate(wrong)]
    out += [("envcut%d" % k, base[:k]) for k in range(1, len(base))]
    if rm.data_ty in ("String", "Inner", "Option<String>"):
        out += [("jsoncut%d" % k, execute_envelope(v0[:k])) for k in range(1, len(v0))]
    out += [("json_ws", execute_envelope(b" " + v0 + b"\n")), ("json_trailing", execute_envelope(v0 + b"x"))]
    return out


RULE = ("every data mode (raw; raw,opt; typed; opt; instantiate; instantiate,opt; no marker) x data types {String,u32,Inner} x payload {raw, typed} "
                       "(quick: packed into one program per shape; thorough: full product): data absent / every alphabet value in a well-formed envelope / "
                       "malformed envelopes (empty, wrong wire type, wrong field, over-long varint, short body, every truncation of a valid envelope, trailing "
                       "bytes) / envelope without inner data / inner JSON malformed (every truncation, wrong types, out of range), through the reply entry point "
                       "and the multitest impl; oracle = documented mode table over a mirror of the envelope format; on error the handler must not run. "
                       "non-trivial = every (name, data case)")


def run(tier):
    res = core.Result("C09", tier)
    for features in ("full", "min"):
        run_features(res, tier, features)
    res.cov["rule"] = RULE
    res.assumptions += ["the response envelope format is the one cw-utils parses (mirrored in Python); trailing bytes after the known fields are ignored by that format",
                        "JSON-decoder-defined corner cases (surrounding whitespace, trailing characters) are only checked for 'no handler on error'",
                        "replayed on two builds: every optional cargo feature of the framework on / only the mandatory ones"]
    return res.finish()


def run_features(res, tier, features):
    cp, info = fam_reply.corpus(tier, features)
    fam_basic.report_failed(res, cp, "reply")
    ids = c07.get_ids(cp, info)
    cx = fam_basic.CONTEXTS[1]
    cases, exp = [], []
    for pid, (c, rms, tags, names) in sorted(info.items()):
        if pid in cp.failed or "modes" not in tags:
            continue
        for name, entry in names.items():
            rm = entry.get("success")
            if rm is None:
                continue
            pl = b"pl" if rm.payload == ("raw",) else (model.TYPE_VALUES[rm.payload[0]][0] if len(rm.payload) == 1 else "[" + ",".join(model.TYPE_VALUES[t][0] for t in rm.payload) + "]").encode()
            for label, data in data_cases(rm, tier):
                if label in ("json_ws", "json_trailing"):
                    # serde-json-wasm's treatment of surrounding whitespace / trailing characters is the JSON
                    # decoder's business; only "no handler on error" is checked for them
                    pass
                d = reply_doc(ids[pid][name], pl, 7, True, [], data, [])
                for op in ("ep", "mt"):
                    cases.append({"prog": pid, "op": op, "kind": "reply", "input": d, "ctx": cx})
                    exp.append((pid, name, rm, label, data, op, d))
    obs = cp.run_cases(cases)
    for case, e, o in zip(cases, exp, obs):
        pid, name, rm, label, data, op, d = e
        res.add(states=1, transitions=1, traces=1, evaluations=1)
        res.mark_nontrivial("%s|%s|%s" % (pid, name, label))

        def bad(what, cls):
            res.violation({"kind": "data", "cls": cls, "pid": pid, "name": name, "mode": rm.data, "data_ty": rm.data_ty, "case": label,
                           "data_hex": data.hex() if data is not None else None, "via": op, "obs": o,
                           "what": "%s %s (mode `%s`, type %s) data case %s via %s: %s" % (pid, name, rm.data, rm.data_ty, label, op, what)})
        if "panic" in o:
            bad("panic: %s" % o["panic"], "panic")
            continue
        log = (o.get("storage") or {}).get("log", "")
        kind, val = expected(rm, data)
        if label in ("json_ws", "json_trailing"):
            # decoder-defined acceptance; the invariant is: error => handler not invoked
            if o.get("res") == "err" and log:
                bad("data undecodable but the handler was invoked", "handler_ran_on_error")
            res.outcome(("decoder_defined", o.get("res")))
            continue
        res.outcome((rm.data, kind, o.get("res")))
        if kind == "error":
            if o.get("res") != "err":
                bad("expected an error (%s), handler outcome %s" % (val or "undecodable data", json.dumps(o.get("resp"))[:200]), "error_expected")
            else:
                if val and val not in o.get("err", ""):
                    bad("error text `%s` lacks `%s`" % (o.get("err"), val), "error_text")
                if log:
                    bad("data undecodable/missing but the handler was invoked (%s)" % log, "handler_ran_on_error")
            continue
        if o.get("res") != "ok":
            bad("well-formed data rejected: %s" % o.get("err"), "rejected")
            continue
        if log != "Ct::%s;" % rm.fn:
            bad("handler log `%s`" % log, "wrong_handler")
            continue
        a = c07.echo_of(o)["args"]
        if rm.data == "none":
            if "data" in a:
                bad("handler without data marker received data", "unexpected_data")
            continue
        got = a.get("data")
        if isinstance(val, tuple):
            _, addr, inner = val
            want_addr = 'contract_address: %s' % json.dumps(addr)
            want_data = "data: None" if inner is None else "data: Some(Binary(%s))" % inner.hex()
            if got is None or got == "None":
                bad("instantiate data delivered as None", "value")
            elif want_addr not in got or want_data not in got or (rm.data.endswith("opt") != got.startswith("Some(")):
                bad("instantiate data delivered as %s, expected address %s and %s" % (got, addr, want_data), "value")
        else:
            if val is None and rm.data.startswith("instantiate"):
                val = "None"   # echoed through Debug
            if got != val:
                bad("data parameter is %s, expected %s" % (json.dumps(got), json.dumps(val)), "value")
    res.parts["cases_" + features] = len(cases)
    if features == "full":
        res.sample(lambda: {"reply": cases[9]["input"], "program": cases[9]["prog"], "observation": obs[9]})

