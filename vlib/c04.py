"""C04 — handlers are reachable only through the entry point of their own kind."""
import json

from . import core, model, fam_basic
from .model import bare, norm

KINDS = ["instantiate", "exec", "query", "sudo", "migrate", "reply"]
ENUMK = ["exec", "query", "sudo"]

REPLY_DOCS = [
    '{"id":0,"payload":"","gas_used":0,"result":{"ok":{"events":[],"data":null,"msg_responses":[]}}}',
    '{"id":1,"payload":"aGk=","gas_used":5,"result":{"ok":{"events":[],"data":null,"msg_responses":[]}}}',
    '{"id":0,"payload":"","gas_used":0,"result":{"error":"boom"}}',
    '{"id":1,"payload":"","gas_used":0,"result":{"error":"boom"}}',
]


def ran(o, kind_sent_to):
    """Set of echo handler labels that ran, read from the storage log / the query payload."""
    out = []
    st = o.get("storage") or {}
    log = st.get("log", "")
    out.extend(x for x in log.split(";") if x)
    for k in st:
        if k.startswith("touched:") and k[8:] not in out:
            out.append(k[8:])
    if o.get("res") == "ok" and "bin" in o:
        try:
            out.append(json.loads(json.loads(o["bin"])["echo"])["h"])
        except Exception:
            # identity queries return their argument, not an echo record; only a query handler can produce a payload
            out.append("?query-without-echo")
    if o.get("res") == "ok" and "resp" in o:
        for a in o["resp"].get("attributes", []):
            if a.get("key") == "echo":
                h = json.loads(a["value"])["h"]
                if h not in out:
                    out.append(h)
    return out


def run_e2(res, tier):
    cp, info = fam_basic.corpus(tier)
    fam_basic.report_failed(res, cp)
    cases, exp = [], []
    for pid, (c, tags, names) in sorted(info.items()):
        if pid in cp.failed:
            continue
        if tier == "quick" and not (tags & {"samename", "reply", "kinds", "names_in", "parts"}):
            continue
        if "wide_ints" in tags:
            continue   # native u128/i128 arguments are not routable through the wrapper (known finding D8b under C03)
        hs = fam_basic.handlers(c, include_reply=True)
        kind_of = {"%s::%s" % (disp, bare(m.name)): m.kind for (label, disp, m) in hs}
        have = set(m.kind for _, _, m in hs)
        docs = []
        for (label, disp, m) in hs:
            if m.kind == "reply":
                continue
            tups = fam_basic.value_tuples(m)
            for t in (tups[:2] if tier == "quick" else tups[:4]):
                docs.append((m.kind, fam_basic.doc(m, t), m.kind in ("instantiate", "migrate") or model.in_shape(m.name)))
        if "reply" in have:
            docs.extend(("reply", d, False) for d in REPLY_DOCS)
        seen = set()
        for k1, d, ctl in docs:
            for k2 in KINDS:
                if (k1, k2, d) in seen:
                    continue
                seen.add((k1, k2, d))
                for op in ("ep", "mt"):
                    cases.append({"prog": pid, "op": op, "kind": k2, "input": d, "ctx": fam_basic.CONTEXTS[2]})
                    exp.append((pid, kind_of, k1, k2, d, op, ctl))
    obs = cp.run_cases(cases)
    for case, e, o in zip(cases, exp, obs):
        if o is None:
            continue
        pid, kind_of, k1, k2, d, op, ctl = e
        res.add(states=1, transitions=1, traces=1, evaluations=1)
        if o.get("absent"):
            res.outcome(("absent", k2))
            continue

        def bad(what, cls):
            res.violation({"kind": "cross_kind", "cls": cls, "pid": pid, "sent_kind": k1, "entry": k2, "via": op, "doc": d, "obs": o,
                           "what": "%s: %s document %s sent to the %s %s: %s" % (pid, k1, d, k2, "entry point" if op == "ep" else "multitest entry", what)})
        if "panic" in o:
            bad("panic: %s" % o["panic"], "panic")
            continue
        handlers = ran(o, k2)
        res.outcome((k1 == k2, len(handlers), o.get("res")))
        if k1 != k2:
            res.mark_nontrivial("%s|%s|%s|%s|%s" % (pid, k1, k2, op, d))
        for h in handlers:
            hk = "query" if h == "?query-without-echo" else kind_of.get(h)
            if hk != k2:
                bad("handler %s (annotated %s) ran" % (h, hk), "foreign_handler")
        if k1 == k2 and k1 != "reply" and not handlers and e[6]:
            bad("positive control: own-kind document ran no handler (%s)" % o.get("err"), "control")
    res.parts["e2_cases"] = len(cases)
    res.sample(lambda: {"case": cases[5], "observation": obs[5]})


def run_e2_overrides(res, tier):
    """Contracts with hand-written entry points for subsets of the kinds (the `override` corpus of C06): a document sent to the
    entry of kind K2 may only reach K2's override or K2-annotated handlers."""
    from . import c06_e2
    from .fam_reply import reply_doc
    cp, progs = c06_e2.corpus(tier)
    cases, exp = [], []
    for over, pid, c in progs:
        if pid in cp.failed:
            res.violation({"kind": "compile", "cls": "valid_program_rejected", "pid": pid, "diags": cp.failed[pid][:3],
                           "what": "%s: contract overriding %s does not compile: %s" % (pid, sorted(over), cp.failed[pid][0]["message"])})
            continue
        hs = fam_basic.handlers(c, include_reply=True)
        kind_of = {"%s::%s" % (disp, bare(m.name)): m.kind for (label, disp, m) in hs}
        docs = []
        for (label, disp, m) in hs:
            if m.kind == "reply":
                docs += [("reply", reply_doc(0, b"pl", 3, True, [], None, [])), ("reply", reply_doc(0, b"", 0, False))]
            else:
                docs.append((m.kind, fam_basic.doc(m, fam_basic.value_tuples(m)[0])))
        for k1, d in docs:
            for k2 in KINDS:
                for op in ("ep", "mt"):
                    cases.append({"prog": pid, "op": op, "kind": k2, "input": d, "ctx": fam_basic.CONTEXTS[1]})
                    exp.append((pid, over, kind_of, k1, k2, d, op))
    for case, e, o in zip(cases, exp, cp.run_cases(cases)):
        pid, over, kind_of, k1, k2, d, op = e
        res.add(states=1, transitions=1, traces=1, evaluations=1)
        if o is None or o.get("absent"):
            continue
        if k1 != k2:
            res.mark_nontrivial("ovr|%s|%s|%s|%s|%s" % (pid, k1, k2, op, d))

        def bad(what, cls):
            res.violation({"kind": "cross_kind", "cls": cls, "pid": pid, "sent_kind": k1, "entry": k2, "via": op, "doc": d, "obs": o, "overridden": sorted(over),
                           "what": "%s (overridden: %s): %s document %s sent to the %s %s: %s" % (pid, sorted(over), k1, d, k2, "entry point" if op == "ep" else "multitest entry", what)})
        if "panic" in o:
            bad("panic: %s" % o["panic"], "panic")
            continue
        marker = None
        if o.get("res") == "ok":
            if "resp" in o:
                marker = next((a["value"] for a in o["resp"].get("attributes", []) if a["key"] == "override"), None)
            elif o.get("bin") == '"override:query"':
                marker = "query"
        res.outcome(("ovr", k1 == k2, marker is not None))
        if marker is not None and marker != k2:
            bad("the hand-written `%s` entry point ran" % marker, "foreign_override")
        for h in ran(o, k2):
            hk = "query" if h == "?query-without-echo" else kind_of.get(h)
            if hk != k2:
                bad("handler %s (annotated %s) ran" % (h, hk), "foreign_handler")
    res.parts["e2_override_cases"] = len(cases)


def run_e1(res, tier):
    """Static part: each contract-level message of kind K consults only K tables and K accessors."""
    recs, meta = [], {}
    for pid, c, tags in fam_basic.programs(tier):
        r = model.e1_contract_record(pid, c, want="items,bodies=deserialize|dispatch")
        recs.append(r)
        meta[pid] = (c, r["item"])
    obs = core.e1_run(recs, "c04-" + tier)
    import re
    for o in obs:
        c, src = meta[o["id"]]
        res.add(states=1, transitions=3, evaluations=1)
        name, items = model.sv_items(o)
        for k in ENUMK:
            wname = model.WRAPPER[k]
            acc = k.capitalize()
            en = [it for it in items if it.get("k") == "enum" and it.get("name") == wname]
            if len(en) != 1:
                res.violation({"kind": "static", "pid": o["id"], "program": src, "what": "%s: wrapper %s missing" % (o["id"], wname)})
                continue
            for v in en[0]["variants"]:
                ty = norm(v["fields"][0]["ty"]) if v["fields"] else ""
                if not ty.endswith("::" + acc):
                    res.violation({"kind": "static", "cls": "variant_accessor", "pid": o["id"], "program": src,
                                   "what": "%s: %s::%s wraps `%s`, expected the %s accessor" % (o["id"], wname, v["name"], v["fields"][0]["ty"], acc)})
            for imp in items:
                if imp.get("k") != "impl" or norm(imp["self_ty"]).split("<")[0] != wname:
                    continue
                for f in imp["items"]:
                    if f.get("k") == "fn" and f["name"] in ("deserialize", "dispatch") and "body" in f:
                        called = set(re.findall(r"\b(\w+)_messages\s*\(\s*\)", f["body"]))   # on the spaced token text: identifiers stay apart
                        want = {model.EP_NAME[k]}
                        if called != want:
                            res.violation({"kind": "static", "cls": "tables", "pid": o["id"], "program": src,
                                           "what": "%s: %s::%s consults tables %s, expected %s" % (o["id"], wname, f["name"], sorted(called), sorted(want))})
    res.parts["e1_programs"] = len(recs)


def run(tier):
    res = core.Result("C04", tier)
    run_e1(res, tier)
    run_e2(res, tier)
    run_e2_overrides(res, tier)
    res.cov["rule"] = ("for the `basic` corpus programs (same name and argument shape in different kinds across contract and interfaces, documents valid for "
                       "two kinds, a contract with reply handlers): every well-formed document of every kind K1 (incl. replies) sent to the entry point and "
                       "to the multitest Contract method of every kind K2 (all 36 ordered pairs incl. K1 = K2 as control); handlers that ran are read "
                       "from the storage log / query payload and must all be annotated K2; the same 36 pairs on contracts whose entry points are hand-written for subsets of the kinds "
                       "(override corpus): only K2's own override or K2-annotated handlers may run.  non-trivial = K1 != K2")
    res.assumptions += ["entry points are driven as the wasm export does: from_json into the entry point's message type, then the generated function"]
    return res.finish()
