"""C03 — contract-level message accepts exactly the union of its parts and routes right.

E1: name-table vs wire-name agreement for all identifiers over {a,b,1,_} up to length 5.
E2: differential oracle (wrapper vs parts) over well-formed documents and all their mutations.
"""
import itertools
import json
import re

from . import core, model, fam_basic
from .model import Method, Arg, Contract, Interface, norm, bare, serde_snake

ENUMK = ["exec", "query", "sudo"]
TABLE_FN = {"exec": "execute_messages", "query": "query_messages", "sudo": "sudo_messages"}


def small_idents(maxlen):
    out = []
    for n in range(1, maxlen + 1):
        for t in itertools.product("ab1_", repeat=n):
            s = "".join(t)
            if s[0] == "1" or set(s) == {"_"}:
                continue
            out.append(s)
    return out


def table_of(items, kind):
    for it in items:
        if it.get("k") == "fn" and it.get("name") == TABLE_FN[kind]:
            body = it.get("body", "")
            return re.findall(r'"((?:[^"\\]|\\.)*)"', body)
    return None


def variants_of(items, kind, where):
    tname = model.MSG_NAME[kind] if where == "contract" else "If" + model.MSG_NAME[kind]
    for it in items:
        if it.get("k") == "enum" and it.get("name") == tname:
            return [v["name"] for v in it["variants"] if v["name"] != "_Phantom"]
    return None


def run_e1(res, tier):
    idents = small_idents(5 if tier == "thorough" else 4) + model.N_IN + model.N_OUT + model.N_RES
    recs, meta = [], {}
    kinds_for = lambda s: ENUMK if (tier == "thorough" or len(s) <= 3 or s in model.N_IN or s in model.N_OUT) else ["exec"]
    for s in idents:
        for kind in kinds_for(s):
            # declared in reverse alphabetical order, so the published list has to be sorted by the generator
            other = "zz_other"
            ms = (Method(kind, other, ()), Method(kind, s, (Arg("a", "u32"),)), Method(kind, "zy_third", ()))
            c = Contract(methods=(Method("instantiate", "inst", ()),) + ms)
            r = model.e1_contract_record("ct:%s:%s" % (kind, s), c, want="items,bodies=" + "|".join(TABLE_FN.values()))
            recs.append(r)
            meta[r["id"]] = ("contract", kind, s, r["item"])
            i = Interface(name="If", module="ifc", methods=ms, custom="msg=Empty, query=Empty")
            r = model.e1_interface_record("if:%s:%s" % (kind, s), i, want="items,bodies=" + "|".join(TABLE_FN.values()))
            recs.append(r)
            meta[r["id"]] = ("interface", kind, s, r["item"])
    # pairs of names: an underscore in front of a digit disappears on the wire, so the order of two method identifiers can differ
    # from the order of their wire names (`a11` < `a_1` but "a1" < "a11"); the published list must be sorted as the wire names are
    small = [x for x in small_idents(3) if not x.startswith("_") and not x.endswith("_")]
    for s1 in small:
        if "_1" not in s1:
            continue
        for s2 in small:
            if s2 == s1:
                continue
            ms = (Method("exec", s1, ()), Method("exec", "zz_other", ()), Method("exec", s2, (Arg("a", "u32"),)))
            c = Contract(methods=(Method("instantiate", "inst", ()),) + ms)
            r = model.e1_contract_record("ctp:%s:%s" % (s1, s2), c, want="items,bodies=" + "|".join(TABLE_FN.values()))
            recs.append(r)
            meta[r["id"]] = ("contract", "exec", s1 + "+" + s2, r["item"])
            i = Interface(name="If", module="ifc", methods=ms, custom="msg=Empty, query=Empty")
            r = model.e1_interface_record("ifp:%s:%s" % (s1, s2), i, want="items,bodies=" + "|".join(TABLE_FN.values()))
            recs.append(r)
            meta[r["id"]] = ("interface", "exec", s1 + "+" + s2, r["item"])
    obs = core.e1_run(recs, "c03-" + tier)
    rejected = 0
    for o in obs:
        where, kind, ident, src = meta[o["id"]]
        res.add(states=1, transitions=1, evaluations=1)
        if o.get("panic") or o.get("dirty") or not o.get("out_parse_ok"):
            rejected += 1
            res.outcome(("rejected_at_build", bool(o.get("panic"))))
            continue
        res.mark_nontrivial("e1:" + o["id"])
        name, items = model.sv_items(o)
        table = table_of(items, kind)
        variants = variants_of(items, kind, where)
        if table is None or variants is None:
            res.violation({"kind": "table", "cls": "missing", "pid": o["id"], "program": src, "what": "%s: table or enum missing" % o["id"]})
            continue
        if len(set(variants)) != len(variants):
            # two methods of one part map to one variant (`a_1` / `a1`): not a valid program (rustc rejects the duplicate variant)
            res.outcome(("invalid_pair", True))
            continue
        wires = sorted(serde_snake(v) for v in variants)
        res.outcome(("table_eq", table == wires))
        if table != wires:
            res.violation({"kind": "table", "cls": "table_vs_wire", "pid": o["id"], "program": src, "ident": ident,
                           "what": "%s: method `%s`: published names %s, serialised names %s" % (o["id"], ident, table, wires)})
        if table != sorted(table) or len(set(table)) != len(table):
            res.violation({"kind": "table", "cls": "unsorted", "pid": o["id"], "program": src, "what": "%s: table %s not sorted/duplicate free" % (o["id"], table)})
    res.parts["e1_programs"] = len(recs)
    res.parts["e1_rejected_at_build"] = rejected
    res.parts["e1_identifiers"] = len(idents)


# ---------------------------------------------------------------------------------------------
# JSON mutation operators

def mutations(c, label, m, tup, all_names_by_kind):
    """Yields (operator id, document bytes) derived from the well-formed document of handler m."""
    name = bare(m.name)
    body = fam_basic.body_json(m, tup)
    d = fam_basic.doc(m, tup)
    q = json.dumps
    # unknown top-level names
    near = [name.title().replace("_", ""), name.upper(), name + "_", "_" + name, name + "x", name[:-1] or "q",
            name.replace("_", ""), name.replace("_", "__"), re.sub(r"(\d)", r"_\1", name), name.replace("_", "-"), "", " " + name]
    for k2, names in all_names_by_kind.items():
        if k2 != m.kind:
            near.extend(sorted(names)[:4])
    seen = set()
    for n in near:
        if n != name and n not in seen:
            seen.add(n)
            yield ("unknown_name", "{%s:%s}" % (q(n), body))
    yield ("empty_object", "{}")
    others = sorted(all_names_by_kind.get(m.kind, set()) - {name})
    for o2 in others[:3]:
        yield ("two_keys", "{%s:%s,%s:{}}" % (q(name), body, q(o2)))
        yield ("two_keys", "{%s:{},%s:%s}" % (q(o2), q(name), body))
    yield ("two_keys_unknown", "{%s:%s,\"zzz\":1}" % (q(name), body))
    yield ("same_key_twice", "{%s:%s,%s:%s}" % (q(name), body, q(name), body))
    for t in ["null", "[]", q(name), "0", "true", "[%s]" % d]:
        yield ("not_object", t)
    for b in ["null", "[]", "0", "\"x\"", "true"]:
        yield ("body_scalar", "{%s:%s}" % (q(name), b))
    args = list(zip(m.args, tup))
    # the arguments as a positional list instead of a keyed object (self-describing formats allow it, this JSON decoder does not)
    yield ("positional_body", "{%s:[%s]}" % (q(name), ",".join(v for a, v in args)))
    if len(args) >= 2:
        yield ("positional_body", "{%s:[%s]}" % (q(name), ",".join(v for a, v in args[:-1])))
    for i in range(len(args)):
        rest = args[:i] + args[i + 1:]
        yield ("missing_field", "{%s:{%s}}" % (q(name), ",".join("%s:%s" % (q(bare(a.name)), v) for a, v in rest)))
        a, v = args[i]
        wrong = "\"str\"" if a.ty not in ("String", "Addr", "Binary", "Uint128") else "17"
        if a.ty in ("()",):
            wrong = "5"
        yield ("wrong_type", "{%s:{%s}}" % (q(name), ",".join("%s:%s" % (q(bare(x.name)), wrong if j == i else w) for j, (x, w) in enumerate(args))))
        if a.ty in ("u32", "i32", "u64"):
            big = {"u32": "4294967296", "i32": "2147483648", "u64": "18446744073709551616"}[a.ty]
            yield ("out_of_range", "{%s:{%s}}" % (q(name), ",".join("%s:%s" % (q(bare(x.name)), big if j == i else w) for j, (x, w) in enumerate(args))))
            yield ("negative", "{%s:{%s}}" % (q(name), ",".join("%s:%s" % (q(bare(x.name)), "-1" if j == i and a.ty != "i32" else w) for j, (x, w) in enumerate(args))))
        yield ("dup_field", "{%s:{%s,%s:%s}}" % (q(name), body[1:-1], q(bare(a.name)), v))
    sep = "," if args else ""
    yield ("extra_field", "{%s:{%s%s\"zz_extra\":1}}" % (q(name), body[1:-1], sep))
    yield ("trailing_garbage", d + "x")
    yield ("trailing_object", d + "{}")
    yield ("whitespace", "  " + d.replace(":", " : ", 1) + " \n")
    yield ("empty_input", "")
    db = d.encode()
    for cut in range(1, len(db)):
        yield ("truncated", db[:cut])


def addressed_128(c, ds):
    """Does the document address (by its first top-level key) a handler with a native u128 / i128 argument?"""
    m = re.match(r'\s*\{\s*"([^"]*)"', ds)
    if not m:
        return False
    for (_, _, h) in fam_basic.handlers(c):
        if bare(h.name) == m.group(1) and any(a.ty in ("u128", "i128") for a in h.args):
            return True
    return False


def run_e2(res, tier):
    cp, info = fam_basic.corpus(tier)
    fam_basic.report_failed(res, cp)
    cases, exp = [], []
    for pid, (c, tags, names) in sorted(info.items()):
        if pid in cp.failed:
            continue
        hs = fam_basic.handlers(c)
        names_by_kind = {}
        for (label, disp, m) in hs:
            names_by_kind.setdefault(m.kind, set()).add(bare(m.name))
        parts = ["contract"] + [i.module for i in c.interfaces]
        per_kind_count = {}
        for (label, disp, m) in hs:
            if m.kind not in ENUMK:
                continue
            tups = fam_basic.value_tuples(m)
            docs = [("wellformed", fam_basic.doc(m, t)) for t in (tups if ("types" in tags or tier == "thorough") else tups[:2])]
            per_kind_count[m.kind] = per_kind_count.get(m.kind, 0) + 1
            # the full mutation set for the first handlers of each kind and part; names for all
            full = per_kind_count[m.kind] <= (3 if tier == "quick" else 10**9) or "names_out" in tags
            for op, md in mutations(c, label, m, tups[0], names_by_kind):
                if full or op in ("unknown_name", "same_key_twice", "two_keys", "dup_field"):
                    docs.append((op, md))
            for op, d in docs:
                grp = len(exp)
                targets = ["wrapper"] + parts
                for t in targets:
                    cases.append({"prog": pid, "op": "decode", "kind": m.kind, "part": t, "input": d})
                exp.append((pid, c, label, disp, m, op, d, targets, len(cases) - len(targets)))
                if op == "wellformed":
                    cases.append({"prog": pid, "op": "dispatch", "kind": m.kind, "part": "wrapper", "input": d, "ctx": fam_basic.CONTEXTS[1]})
                    exp.append((pid, c, label, disp, m, "dispatch", d, None, len(cases) - 1))
    obs = cp.run_cases(cases)
    # every kind of every program, also kinds without any handler (empty name tables): an unknown name is an error, never a panic
    ecases = []
    for pid, (c, tags, names) in sorted(info.items()):
        if pid in cp.failed:
            continue
        for k in ENUMK:
            for d in ('{"nope":{}}', '{"nope":null}', '{"":{}}', '{}', '{"nope":1.5}', '{"nope":{"a":1.5}}', '{"nope":[1e3]}', '{"nope":-0.0}', '1.5', '{"nope":{"a":{"b":[2.5]}}}'):
                ecases.append({"prog": pid, "op": "decode", "kind": k, "part": "wrapper", "input": d})
    for ec, o in zip(ecases, cp.run_cases(ecases)):
        res.add(states=1, transitions=1, traces=1, evaluations=1)
        res.outcome(("unknown_any_kind", "panic" in o, bool(o.get("ok"))))
        if "panic" in o or o.get("ok"):
            res.violation({"kind": "differential", "cls": "panic" if "panic" in o else "wrapper_accepts_none_accept", "op": "unknown_name_any_kind", "pid": ec["prog"], "mkind": ec["kind"], "doc": ec["input"], "wrapper": o,
                           "native_128": False,
                           "what": "%s: the contract-level %s message answers %s with %s (an error naming the supported messages is promised)" % (
                               ec["prog"], ec["kind"], ec["input"], ("a panic: " + str(o.get("panic"))[:200]) if "panic" in o else "acceptance")})
    tables = {}
    tcases = []
    for pid, (c, tags, names) in sorted(info.items()):
        if pid in cp.failed:
            continue
        for k in ENUMK:
            for p in ["contract"] + [i.module for i in c.interfaces]:
                tcases.append({"prog": pid, "op": "tables", "kind": k, "part": p})
    for tc, o in zip(tcases, cp.run_cases(tcases)):
        tables[(tc["prog"], tc["kind"], tc["part"])] = o
    for e in exp:
        pid, c, label, disp, m, op, d, targets, base = e
        ds = d if isinstance(d, str) else d.decode("utf-8", "replace")
        if op == "dispatch":
            o = obs[base]
            res.add(transitions=1, traces=1)
            if o.get("res") == "ok" and fam_basic.is_identity(m):
                pass   # identity queries carry no echo; C02 judges their payload
            elif o.get("res") == "ok":
                try:
                    if m.kind == "query":
                        got = json.loads(json.loads(o["bin"])["echo"])
                    else:
                        got = json.loads(o["resp"]["attributes"][0]["value"])
                    if got["h"] != "%s::%s" % (disp, bare(m.name)):
                        res.violation({"kind": "route", "cls": "wrong_handler", "pid": pid, "doc": ds,
                                       "what": "%s: document %s of %s::%s reached handler %s" % (pid, ds, disp, m.name, got["h"])})
                except Exception:
                    res.violation({"kind": "route", "cls": "bad_echo", "pid": pid, "doc": ds, "what": "%s: unreadable echo for %s: %r" % (pid, ds, o)})
            elif o.get("res") != "decode_err":   # decode errors are judged by the differential oracle below
                res.violation({"kind": "route", "cls": "dispatch_error", "pid": pid, "doc": ds, "what": "%s: dispatch of %s failed: %r" % (pid, ds, o)})
            continue
        os_ = obs[base:base + len(targets)]
        res.add(states=1, transitions=len(targets), traces=len(targets), evaluations=1)
        w = os_[0]
        accepted = [(t, o) for t, o in zip(targets[1:], os_[1:]) if o.get("ok")]
        panics = [(t, o) for t, o in zip(targets, os_) if "panic" in o]

        def bad(what, cls):
            res.violation({"kind": "differential", "cls": cls, "op": op, "pid": pid, "part": label, "method": m.name, "mkind": m.kind, "doc": ds, "native_128": model.has_wide_int(ds) or any(a.ty in ("u128", "i128") for a in m.args) or addressed_128(c, ds),
                           "wrapper": w, "parts": {t: o for t, o in zip(targets[1:], os_[1:])},
                           "what": "%s [%s] %s: %s" % (pid, op, ds[:200], what)})
        if panics:
            bad("decoding panics at %s: %s" % (panics[0][0], panics[0][1]["panic"]), "panic")
            continue
        res.outcome((op, len(accepted), bool(w.get("ok"))))
        if len(accepted) >= 1:
            res.mark_nontrivial(pid + "|" + m.kind + "|" + ds)
        if len(accepted) == 1:
            t, po = accepted[0]
            if not w.get("ok"):
                bad("part %s accepts (as %s) but the contract-level message rejects: %s" % (t, po["json"], w.get("err")), "wrapper_rejects_part_accepts")
            else:
                if w["json"] != po["json"]:
                    bad("contract-level message re-encodes as %s, the part alone as %s" % (w["json"], po["json"]), "reencode")
                if po["dbg"] not in w["dbg"]:
                    bad("contract-level value %s does not wrap the part's value %s" % (w["dbg"], po["dbg"]), "value")
        elif len(accepted) == 0:
            if w.get("ok"):
                bad("no part accepts the document but the contract-level message decodes it as %s" % w["json"], "wrapper_accepts_none_accept")
            elif op == "unknown_name":
                # the error for an unknown name lists the supported messages
                want = set()
                for p in targets[1:]:
                    want |= set(tables[(pid, m.kind, p)])
                try:
                    key = list(json.loads(ds).keys())[0]
                except Exception:
                    key = None
                errtxt = w.get("err") or ""
                tail = errtxt.split("supported by this contract", 1)[-1]
                missing = [n for n in sorted(want) if not re.search(r"(?<![A-Za-z0-9_])%s(?![A-Za-z0-9_])" % re.escape(n), tail)]
                if key is not None and key not in want and missing:
                    bad("error for unknown name does not list supported messages %s: %s" % (missing, w.get("err")), "error_lists_names")
        else:
            bad("%d parts accept one document: %s" % (len(accepted), [t for t, _ in accepted]), "ambiguous")
    res.parts["e2_cases"] = len(cases)
    res.parts["e2_documents"] = sum(1 for e in exp if e[5] != "dispatch")
    ex = ([e for e in exp if e[5] == "same_key_twice"] or [None])[0]
    res.sample(lambda: {"document": ex[6], "operator": ex[5], "program": ex[0], "targets": ex[7], "observations": obs[ex[8]:ex[8] + len(ex[7])]})


def run(tier):
    res = core.Result("C03", tier)
    run_e1(res, tier)
    run_e2(res, tier)
    res.cov["rule"] = ("E1: every identifier over {a,b,1,_} up to length %d plus the N_in/N_out/N_res names as contract and as interface method of each kind: "
                       "published name table == sorted serde names of the generated variants.  E2: for every handler of the `basic` corpus every "
                       "well-formed document and every mutation (unknown names, {}, two keys, same key twice, non-object, scalar body, missing/extra/"
                       "duplicate/wrong-typed/out-of-range field, trailing garbage, whitespace, empty, every truncation) decoded at the wrapper and at "
                       "every part; differential oracle.  non-trivial = a document at least one part accepts" % (5 if tier == "thorough" else 4))
    res.assumptions += ["wrapper and parts are compared through re-serialised JSON and Debug text",
                        "identifiers the macro cannot turn into a variant (e.g. `_1`) are rejected at build time and counted, not judged"]
    return res.finish()
