"""Program families shared by several properties (enumerators of model programs)."""


def all_e1_records(tier):
    """Every E1 program record of every family (used by C13: pass-through on all of them)."""
    out = []
    for fam in REGISTRY:
        out.extend(fam(tier))
    return out


REGISTRY = []
