"""Program families shared by several properties (enumerators of model programs)."""


def all_e1_records(tier):
    """Every E1 program record of every family (used by C13: pass-through and determinism on all of them)."""
    from . import fam_basic, fam_custom, fam_reply, c06, c15, c17, model
    out = []
    out += fam_basic.e1_records(tier)
    out += fam_custom.e1_records(tier)
    out += fam_reply.e1_records(tier)
    out += c06.e1_records(tier)
    k = 0
    for pid, where, obj, params, used, wheres in c15.programs("quick"):
        k += 1
        if tier == "quick" and k % 10:
            continue
        out.append((model.e1_contract_record if where == "contract" else model.e1_interface_record)("generic:" + pid, obj))
    for n, (kinds, handlers, args, dk) in enumerate(c17.configs("quick")):
        if dk == "only_exec" or (tier == "quick" and n % 4):
            continue
        for where in ("contract", "interface"):
            obj = c17.build(where, kinds, handlers, args, dk)
            out.append((model.e1_contract_record if where == "contract" else model.e1_interface_record)("attrs:%d:%s" % (n, where), obj))
    seen, uniq = set(), []
    for r in out:
        if r["id"] in seen:
            continue
        seen.add(r["id"])
        uniq.append(r)
    return uniq
