"""C12 — multitest proxies are equivalent to sending the raw JSON message (E5 history explorer)."""
import json

from . import core, e4


def run(tier):
    res = core.Result("C12", tier)
    out = e4.run_suite_into(res, "history", tier, timeout=7200)
    if out is not None:
        for p in out["programs"]:
            res.add(states=p["states"], transitions=p["transitions"], traces=2 * p["transitions"], evaluations=p["transitions"])
            res.parts[p["program"]] = {"ops": p["ops"], "states": p["states"], "transitions": p["transitions"], "disabled_ops": p["disabled"],
                                       "completed_depth": p["completed_depth"], "per_depth": p["per_depth"]}
            if p["capped"]:
                res.caps.append("%s: wall-clock cap hit, completed depth %d" % (p["program"], p["completed_depth"]))
            for d in p["per_depth"]:
                res.outcome((p["program"], d["depth"], d["new_states"] > 0))
            seen = set()
            for v in p["violations"]:
                last = v["history"][-1]
                cls = "proxy_panics" if "proxy panics" in v["what"] else "state_differs" if "chain state differs" in v["what"] else "result_differs"
                opkind = last.split(" ")[0].split("{")[0].strip()
                key = (cls, opkind, v["what"][:60])
                if key in seen:
                    continue
                seen.add(key)
                res.violation({"kind": "history", "cls": cls, "op": opkind, "program": v["program"], "history": v["history"], "ops": v["ops"],
                               "what": "%s after %s: %s" % (v["program"], " ; ".join(v["history"]), v["what"][:600])})
            res.sample({"program": p["program"], "operation_alphabet": p["op_alphabet"][:8], "example_history": p["op_alphabet"][:1] + p["op_alphabet"][2:3] + p["op_alphabet"][8:9]})
    else:
        out = e4.stub()
    res.nontrivial = set(range(sum(p["transitions"] for p in out["programs"])))
    res.cov["rule"] = ("breadth-first search over sequences of multitest operations (store_code; instantiate x {argument incl. a refusing one} x option subsets of "
                       "{label, admin, funds, salt} x sender; every exec / query / sudo proxy of contract and interface x arguments incl. failing ones x funds x "
                       "sender x instance; migrate x {admin, stranger} x {valid, missing code id} x {ok, failing}) to depth %d on %d stateful programs; each transition "
                       "re-executes the history on two fresh identically seeded chains (proxy chain / raw-JSON chain) and compares the step's result (events, data, "
                       "address, query value, typed error value; chain-level failures as 'both fail, no panic') and the canonical dump of both chains (storage, "
                       "code id / creator / admin / label, balances); states de-duplicated on the raw chain's dump.  non-trivial = every enabled transition"
                       % (out["depth"], len(out["programs"])))
    res.assumptions += ["equivalence is against cw-multi-test, not wasmd", "cw-multi-test's own post-processing of response data (envelope stripping by execute_contract) is mirrored on the raw side",
                        "state digests are 128-bit hashes of the canonical dump"]
    return res.finish()
