"""C13 — the annotated source is passed through intact and expansion is deterministic (E1)."""
import glob
import itertools
import os

from . import core, model, families


# --- decorated grammar -----------------------------------------------------------------------
# A template with named slots; a decoration is (id, slot, text).  All subsets of decorations up
# to a size bound are enumerated (texts landing in one slot are concatenated in id order).

CT_TEMPLATE = """{item}
impl Ct {{
    {pre}
    pub const fn new() -> Self {{ Self }}

    #[sv::msg(instantiate)]
    fn inst(&self, ctx: InstantiateCtx, a: u32) -> StdResult<Response> {{ Ok(Response::new()) }}

    {m_before}
    #[sv::msg(exec)]
    {m_after}
    {m_vis}fn foo({self_attr}&self, {ctx_attr}ctx: ExecCtx, {p_attr}x: u32, {p2_attr}y: String) -> StdResult<Response> {{
        {body}
        Ok(Response::new())
    }}

    {q_before}
    #[sv::msg(query)]
    fn get_x(&self, ctx: QueryCtx, {qp_attr}k: u32) -> StdResult<u32> {{ Ok(k) }}

    {helper}
    {assoc}
}}"""

CT_DECOS = [
    ("item_allow", "item", "#[allow(dead_code)]"),
    ("item_cfg", "item", "#[cfg(not(any()))]"),
    ("item_doc", "item", "/// the contract\n/// second line"),
    ("item_tool", "item", "#[rustfmt::skip]"),
    ("item_sv_err", "item", "#[sv::error(StdError)]"),
    ("m_doc", "m_before", "/// handler doc"),
    ("m_allow_b", "m_before", "#[allow(unused_variables)]"),
    ("m_inline_a", "m_after", "#[inline]"),
    ("m_must_use_a", "m_after", "#[must_use]"),
    ("m_depr_b", "m_before", "#[deprecated(note = \"x\")]"),
    ("m_cfg_a", "m_after", "#[cfg(not(any()))]"),
    ("m_docstr_like", "m_before", "#[doc = \"#[sv::msg(exec)]\"]"),
    ("m_sv_attr", "m_after", "#[sv::attr(serde(rename = \"fooz\"))]"),
    ("m_pub", "m_vis", "pub "),
    ("m_pubcrate", "m_vis", "pub(crate) "),
    ("p_allow", "p_attr", "#[allow(unused)] "),
    ("p_cfg", "p_attr", "#[cfg(not(any()))] "),
    ("p_serde", "p2_attr", "#[serde(default)] "),
    ("ctx_allow", "ctx_attr", "#[allow(unused_variables)] "),
    ("self_allow", "self_attr", "#[allow(unused)] "),
    ("qp_allow", "qp_attr", "#[allow(unused)] "),
    ("q_doc", "q_before", "/** block doc */"),
    ("h_plain", "helper", "fn helper(&self, kept: u32) -> u32 { kept }"),
    ("h_pattr", "helper", "fn helper_a(&self, #[allow(unused)] p: u32, #[cfg(any())] gone: u32, kept: u32) -> u32 { kept }"),
    ("h_const", "helper", "pub(crate) const fn helper_c() -> u32 { 3 }"),
    ("h_unsafe", "helper", "unsafe fn helper_u(&self) {}"),
    ("h_gen", "helper", "fn helper_g<X: Clone>(&self, x: X) -> X where X: Default { x.clone() }"),
    ("h_attrs", "helper", "/// helper doc\n#[inline(always)]\n#[allow(clippy::all)]\nfn helper_d(&self) {}"),
    ("h_pre", "pre", "fn before_new(&self, #[allow(unused)] q: u8) {}"),
    ("h_like", "helper", "#[doc = \"sv::msg(exec)\"]\nfn helper_l(&self, msg: u32) -> u32 { msg }"),
    ("a_const", "assoc", "const K: u32 = 3;"),
    ("a_pubconst", "assoc", "pub const NAME: &'static str = \"#[sv::msg(query)]\";"),
    ("b_nested_fn", "body", "fn nested(#[allow(unused)] z: u32) -> u32 { 1 } let _ = nested(x);"),
    ("b_closure", "body", "let cl = |#[allow(unused)] w: u32| w + 1; let _ = cl(x);"),
    ("b_nested_impl", "body", "struct L; impl L { fn n(&self, #[allow(unused)] q: u32) -> u32 { 2 } } let _ = L.n(x);"),
    ("b_macro", "body", "let _v = vec![1u8, 2]; let _s = format!(\"{}{}\", y, \"#[sv::msg(exec)]\");"),
    ("b_attr_stmt", "body", "#[allow(unused_variables)] let unused_local = 1;"),
    # a forwarded attribute written above the kind annotation
    ("m_sv_attr_b", "m_before", "#[sv::attr(serde(alias = \"foo_b\"))]"),
    # foreign two-segment attributes whose last segment is spelled like one of the framework's
    ("m_foreign_msg", "m_before", "#[acl::msg(exec)]"),
    ("m_foreign_attr", "m_after", "#[i18n::attr(serde(rename = \"no\"))]"),
    ("item_foreign_custom", "item", "#[acl::custom(msg = Nope)]"),
    ("item_foreign_error", "item", "#[other::error(Nope)]"),
    ("item_allow_multi", "item", "#[allow(clippy::new_without_default, non_snake_case, dead_code)]"),
    ("h_foreign_msg", "helper", "#[clippy::msg(query)]\nfn helper_f(&self, n: u32) -> u32 { n }"),
    # binding modes are part of the signature as written
    ("p_mut", "p_attr", "mut "),
    ("ctx_mut", "ctx_attr", "mut "),
    ("qp_mut", "qp_attr", "mut "),
]

IF_TEMPLATE = """{item}
pub trait If{supers} {{
    type Error: From<StdError>;
    {assoc}

    {m_before}
    #[sv::msg(exec)]
    {m_after}
    fn foo({self_attr}&self, {ctx_attr}ctx: ExecCtx, {p_attr}x: u32) -> Result<Response, Self::Error>;

    {q_before}
    #[sv::msg(query)]
    fn get_x(&self, ctx: QueryCtx, {qp_attr}k: u32) -> Result<u32, Self::Error>;

    #[sv::msg(sudo)]
    fn sd(&self, ctx: SudoCtx) -> Result<Response, Self::Error>;

    {helper}
}}"""

IF_DECOS = [
    ("item_allow", "item", "#[allow(dead_code)]"),
    ("item_cfg", "item", "#[cfg(not(any()))]"),
    ("item_doc", "item", "/// the interface"),
    ("item_custom", "item", "#[sv::custom(msg = Empty, query = Empty)]"),
    ("m_doc", "m_before", "/// handler doc"),
    ("m_allow_a", "m_after", "#[allow(unused_variables)]"),
    ("m_cfg_b", "m_before", "#[cfg(not(any()))]"),
    ("m_depr_a", "m_after", "#[deprecated]"),
    ("m_sv_attr", "m_after", "#[sv::attr(serde(alias = \"fooz\"))]"),
    ("p_allow", "p_attr", "#[allow(unused)] "),
    ("p_cfg", "p_attr", "#[cfg(not(any()))] "),
    ("ctx_allow", "ctx_attr", "#[allow(unused_variables)] "),
    ("self_allow", "self_attr", "#[allow(unused)] "),
    ("qp_serde", "qp_attr", "#[serde(default)] "),
    ("q_doc", "q_before", "/// query doc"),
    ("h_decl", "helper", "fn helper(&self, kept: u32) -> u32;"),
    ("h_default", "helper", "fn helper_d(&self, #[allow(unused)] p: u32) -> u32 { 1 }"),
    ("h_pattr", "helper", "fn helper_a(&self, #[cfg(any())] gone: u32, kept: u32) -> u32;"),
    ("h_gen", "helper", "fn helper_g<X: Clone>(&self, x: X) -> X where X: Default;"),
    ("h_attrs", "helper", "/// helper doc\n#[must_use]\nfn helper_m(&self) -> u32;"),
    ("h_static", "helper", "fn helper_s() -> u32 where Self: Sized { 2 }"),
    ("a_const", "assoc", "const K: u32;"),
    ("a_const_def", "assoc", "const D: u32 = 4;"),
    ("a_type", "assoc", "type Extra: Clone;"),
    ("a_type_doc", "assoc", "/// assoc doc\ntype Param: std::fmt::Debug;"),
    ("supers", "supers", ": Sized"),
    ("m_sv_attr_b", "m_before", "#[sv::attr(serde(alias = \"foo_b\"))]"),
    ("m_foreign_msg", "m_before", "#[acl::msg(exec)]"),
    ("item_foreign_custom", "item", "#[acl::custom(msg = Nope)]"),
    ("h_foreign_msg", "helper", "#[clippy::msg(query)]\nfn helper_f(&self, n: u32) -> u32 { n }"),
]


def fill(template, decos, chosen):
    slots = {}
    import string
    for _, name, _, _ in string.Formatter().parse(template):
        if name:
            slots[name] = ""
    for did, slot, text in decos:
        if did in chosen:
            sep = "\n    " if slot not in ("m_vis", "p_attr", "p2_attr", "ctx_attr", "self_attr", "qp_attr", "supers") else ""
            slots[slot] = slots[slot] + text + sep
    return template.format(**slots)


def subsets(decos, k):
    ids = [d[0] for d in decos]
    for n in range(0, k + 1):
        for comb in itertools.combinations(ids, n):
            # two visibilities cannot be combined
            if "m_pub" in comb and "m_pubcrate" in comb:
                continue
            yield comb


def real_sources():
    files = sorted(glob.glob(os.path.join(core.REPO, "sylvia", "tests", "*.rs")))
    files += sorted(glob.glob(os.path.join(core.REPO, "examples", "**", "src", "**", "*.rs"), recursive=True))
    return files


def check_obs(res, o, label, src=None):
    """Common C13 oracle on one observation."""
    if not o.get("parse_ok"):
        raise core.MachineryError("C13: generated program does not parse: %s" % label)
    res.add(states=1, transitions=2, traces=1, evaluations=1)
    if o.get("panic") is not None:
        res.violation({"kind": "panic", "what": "macro panicked on %s: %s" % (label, o["panic"]), "program": src,
                       "mac": o["mac"], "label": label})
        return
    if not o.get("deterministic"):
        res.violation({"kind": "nondeterministic", "what": "two expansions of %s differ" % label, "program": src,
                       "mac": o["mac"], "label": label})
    if not o.get("out_parse_ok"):
        res.violation({"kind": "unparsable_output", "what": "expansion of %s is not valid Rust: %s" % (label, o.get("out_parse_err")),
                       "program": src, "mac": o["mac"], "label": label})
        return
    pt = o.get("passthrough_ok")
    if pt is False:
        res.violation({"kind": "passthrough", "what": "re-emitted item differs for %s: got `%s` want `%s`" % (label, o.get("pt_got"), o.get("pt_want")),
                       "program": src, "mac": o["mac"], "label": label, "got": o.get("pt_got"), "want": o.get("pt_want")})
    res.outcome((o["mac"], pt, o.get("dirty")))


def run(tier):
    res = core.Result("C13", tier)
    k = 2 if tier == "quick" else 4
    recs, src = [], {}
    for comb in subsets(CT_DECOS, k):
        text = fill(CT_TEMPLATE, CT_DECOS, comb)
        pid = "ct:" + "+".join(comb)
        recs.append({"id": pid, "mac": "contract", "attr": "", "item": text, "want": ""})
        src[pid] = text
        if len(comb) <= (1 if tier == "quick" else 2):
            pid2 = "ep:" + "+".join(comb)
            recs.append({"id": pid2, "mac": "entry_points", "attr": "", "item": "#[contract]\n" + text, "want": ""})
            src[pid2] = "#[contract]\n" + text
    for comb in subsets(IF_DECOS, k):
        text = fill(IF_TEMPLATE, IF_DECOS, comb)
        pid = "if:" + "+".join(comb)
        recs.append({"id": pid, "mac": "interface", "attr": "", "item": text, "want": ""})
        src[pid] = text
    n_deco = len(recs)
    # every program of every other family
    fam = families.all_e1_records(tier)
    for r in fam:
        r = dict(r)
        r["want"] = ""
        r["id"] = "fam:" + r["id"]
        recs.append(r)
        src[r["id"]] = r["item"]
    # the real sources
    files = real_sources()
    for p in files:
        recs.append({"id": "file:" + os.path.relpath(p, core.REPO), "mac": "file", "attr": "", "item": p, "want": ""})
    obs = core.e1_run(recs, "c13-" + tier)
    # determinism across processes: a second process expands a subset again; digests must agree
    sub = [r for r in recs if r["mac"] != "file" and (tier == "thorough" or r["id"].count("+") == 0)]
    if tier == "thorough":
        sub = sub[::3]
    obs2 = {o["id"]: o for o in core.e1_run(sub, "c13p2-" + tier)}
    first = {o["id"]: o for o in obs}
    for pid, o2 in obs2.items():
        res.add(transitions=1)
        o1 = first.get(pid)
        if o1 is not None and o1.get("digest") != o2.get("digest"):
            res.violation({"kind": "nondeterministic", "what": "expansion of %s differs between two processes (digests %s vs %s)" % (pid, o1.get("digest"), o2.get("digest")),
                           "program": src.get(pid), "label": pid})
    res.parts["cross_process_programs"] = len(obs2)
    n_real = 0
    real_files_with_items = 0
    for o in obs:
        if o["mac"] == "file":
            if o.get("file_error"):
                raise core.MachineryError("cannot parse real source %s: %s" % (o["id"], o["file_error"]))
            if o["n_found"]:
                real_files_with_items += 1
            continue
        pid = o["id"]
        if pid.startswith("file:"):
            n_real += 1
            check_obs(res, o, pid + " (" + o["mac"] + ")", src=o.get("item_src"))
            res.mark_nontrivial(pid)
        else:
            check_obs(res, o, pid, src=src.get(pid))
            if pid.startswith(("ct:", "if:", "ep:")) and len(pid) > 3:
                res.mark_nontrivial(pid)
            elif pid.startswith("fam:"):
                res.mark_nontrivial(pid)
    if n_real < 40:
        raise core.MachineryError("C13: only %d macro items found in real sources (expected > 40)" % n_real)
    res.sample({"decorated_contract": fill(CT_TEMPLATE, CT_DECOS, ("h_pattr", "p_cfg"))})
    res.sample({"decorated_interface": fill(IF_TEMPLATE, IF_DECOS, ("h_default", "a_type"))})
    res.cov["rule"] = ("every subset of <= %d decorations (out of %d contract / %d interface decorations: foreign attributes on item, "
                       "methods, handler and helper parameters; helpers; nested items; associated items) on a base contract and a base "
                       "interface, every program of the other families, and every contract/interface/entry_points item in sylvia/tests and "
                       "examples/; non-trivial = carries at least one decoration, or is a family / real program; each expanded twice"
                       % (k, len(CT_DECOS), len(IF_DECOS)))
    res.parts = {"decorated_programs": n_deco, "family_programs": len(fam), "real_source_files": len(files),
                 "real_macro_items": n_real, "subset_bound": k}
    res.assumptions += ["independent stripper implements the property text: removes two-segment sv::{custom,error,messages,msg,"
                        "override_entry_point,attr,msg_attr,payload,data,features} attributes on the item and its methods and all "
                        "attributes on parameters of methods carrying sv::msg",
                        "a trailing comma in a parenthesised list is not considered part of the source as written",
                        "the contract macro's documented extra #[allow(clippy::new_without_default)] is expected"]
    return res.finish()
