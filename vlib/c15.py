"""C15 — generated message types carry exactly the generic parameters they use."""
import itertools
import zlib
import json
import re

from . import core, model, e2, fam_basic
from .model import Method, Arg, Contract, Interface, norm

KINDS5 = ["instantiate", "exec", "query", "sudo", "migrate"]

# usage patterns of one parameter P: list of (kind, slot, type text with {P})
PATTERNS = [
    ("unused", []),
    ("exec_direct", [("exec", "arg", "{P}")]),
    ("exec_vec", [("exec", "arg", "Vec<{P}>")]),
    ("query_optvec", [("query", "arg", "Option<Vec<{P}>>")]),
    ("query_ret", [("query", "ret", "{P}")]),
    ("query_ret_vec", [("query", "ret", "Vec<{P}>")]),
    ("inst_tuple", [("instantiate", "arg", "({P}, u32)")]),
    ("sudo_array", [("sudo", "arg", "[{P}; 2]")]),
    ("migrate_direct", [("migrate", "arg", "{P}")]),
    ("exec_and_query", [("exec", "arg", "{P}"), ("query", "arg", "{P}")]),
    ("query_resp_attr", [("query", "resp", "{P}")]),
    ("exec_twice", [("exec", "arg", "{P}"), ("exec", "arg", "Option<{P}>")]),
    ("exec_vec_tuple", [("exec", "arg", "Vec<({P}, u32)>")]),
    ("query_ret_opt_tuple", [("query", "ret", "Option<({P}, u32)>")]),
    ("sudo_opt_array", [("sudo", "arg", "Option<[{P}; 2]>")]),
    # only in the error half of a query's result: not part of the message, so not a parameter of it
    ("query_err_only", [("query", "err", "{P}")]),
    # a concrete type reached through a path whose last segment is spelled like the parameter: not a use of the parameter
    ("exec_qualified_lookalike", [("exec", "lookalike", "other::{P}")]),
]

PNAMES = ["TA", "TB", "TD"]   # single letters are C19's subject (some collide with helper parameters)


def where_variants(params):
    out = [("none", [])]
    out.append(("each", ["%s: Clone" % p for p in params]))
    out.append(("multi", ["%s: Clone + std::fmt::Debug" % params[0]]))
    out.append(("hrtb", ["for<'de> %s: serde::Deserialize<'de>" % params[-1]]))
    if len(params) >= 2:
        out.append(("relate", ["%s: Into<%s>" % (params[0], params[1])]))
        out.append(("relate_each", ["%s: Into<%s>" % (params[0], params[1])] + ["%s: Clone" % p for p in params]))
    return out


def pred_params(pred, params):
    return [p for p in params if re.search(r"\b%s\b" % p, pred)]


def build_contract(params, pats, wheres, interface=False):
    """Returns (object, used: kind -> ordered list of params)."""
    used = {k: [] for k in KINDS5}
    methods = {k: [] for k in KINDS5}
    cnt = 0
    for p, (pname, uses) in zip(params, pats):
        for (kind, slot, ty) in uses:
            t = ty.replace("{P}", ("Self::" + p) if interface else p)
            cnt += 1
            if p not in used[kind] and slot not in ("err", "lookalike"):
                used[kind].append(p)
            if slot == "lookalike":
                methods[kind].append(("arg", "x%d" % cnt, ty.replace("{P}", p)))
            elif slot == "arg":
                methods[kind].append(("arg", "x%d" % cnt, t))
            elif slot == "err":
                methods[kind].append(("err", None, t))
            elif slot == "ret":
                methods[kind].append(("ret", None, t))
            else:
                methods[kind].append(("resp", None, p))
    ms = []
    for kind in KINDS5:
        if interface and kind in ("instantiate", "migrate"):
            continue
        items = methods[kind]
        args = tuple(Arg(n, t) for (s, n, t) in items if s == "arg")
        if kind == "query":
            rets = [t for (s, n, t) in items if s == "ret"]
            resps = [t for (s, n, t) in items if s == "resp"]
            ms.append(Method("query", "q_args", args))
            for j, t in enumerate(rets):
                ms.append(Method("query", "q_ret%d" % j, (), qret=t, body="{ todo!() }"))
            for j, t in enumerate(resps):
                ms.append(Method("query", "q_resp%d" % j, (), msg_params=", resp=%s" % t, ret="AliasedResult", body="{ todo!() }"))
            for j, t in enumerate(t for (s_, n, t) in items if s_ == "err"):
                ms.append(Method("query", "q_err%d" % j, (), ret="Result<u32, ErrOf<%s>>" % t, qret="u32", body="{ todo!() }"))
        elif kind in ("instantiate",):
            ms.append(Method(kind, "inst", args))
        elif kind == "migrate":
            if args:
                ms.append(Method(kind, "mig", args))
        else:
            ms.append(Method(kind, kind[0] + "_h", args))
            ms.append(Method(kind, kind[0] + "_plain", (Arg("n", "u32"),)))
    if interface:
        assoc = []
        for p in params:
            b = [w.split(":", 1)[1].strip() for w in wheres if w.startswith(p + ":")]
            assoc.append((p, " + ".join(b) if b else "Clone"))
        obj = Interface(name="If", module="ifc", methods=tuple(ms), assoc=tuple(assoc), custom="msg=Empty, query=Empty")
    else:
        obj = Contract(methods=tuple(ms), generics=tuple((p, "") for p in params), where=tuple(wheres),
                       new="pub const fn new() -> Self { Self { _p: std::marker::PhantomData } }")
    # order used lists by declaration order
    used = {k: [p for p in params if p in v] for k, v in used.items()}
    return obj, used


def programs(tier):
    """Yields (pid, where, obj, params, used, user_predicates)."""
    for n in (1, 2, 3):
        params = PNAMES[:n]
        pat_lists = itertools.product(PATTERNS, repeat=n)
        for pats in pat_lists:
            wv = where_variants(params)
            if tier == "quick" and n == 3:
                wv = wv[:1] if zlib.crc32("+".join(p[0] for p in pats).encode()) % 5 else wv[:2] + wv[4:5]
            for wname, wheres in wv:
                pid = "g%d:%s:%s" % (n, "+".join(p[0] for p in pats), wname)
                obj, used = build_contract(params, pats, wheres)
                yield (pid, "contract", obj, params, used, wheres)
        if n == 2:
            # one parameter used, then the other, then the first again (within one handler, across handlers, argument then response)
            TA, TB = params
            for j, (ex, qa, qr) in enumerate([((TA, TB, TA), (TB,), None), ((TA,), (TB, TA, "Vec<%s>" % TB), None), ((TB,), (TA, TB), TA), ((TA, "Option<%s>" % TB, "Vec<%s>" % TA, TB), (), TB)]):
                ms = [Method("instantiate", "inst", ()), Method("exec", "e_h", tuple(Arg("x%d" % k, t) for k, t in enumerate(ex))), Method("exec", "e_two", (Arg("y", ex[0]),)),
                      Method("query", "q_args", tuple(Arg("x%d" % k, t) for k, t in enumerate(qa)))]
                if qr:
                    ms.append(Method("query", "q_ret0", (), qret=qr, body="{ todo!() }"))
                usedk = {k: [] for k in KINDS5}
                usedk["exec"] = [q for q in params if any(re.search(r"\b%s\b" % q, t) for t in ex)]
                usedk["query"] = [q for q in params if any(re.search(r"\b%s\b" % q, t) for t in list(qa) + ([qr] if qr else []))]
                obj = Contract(methods=tuple(ms), generics=tuple((q, "") for q in params), new="pub const fn new() -> Self { Self { _p: std::marker::PhantomData } }")
                yield ("g2:interleaved%d" % j, "contract", obj, params, usedk, [])
        if n <= 2 or tier == "thorough":
            for pats in itertools.product(PATTERNS, repeat=n):
                if any(k in ("instantiate", "migrate") for p in pats for (k, _, _) in p[1]):
                    continue
                pid = "i%d:%s" % (n, "+".join(p[0] for p in pats))
                obj, used = build_contract(params, pats, [], interface=True)
                yield (pid, "interface", obj, params, used, [])


MSG_OF = {"InstantiateMsg": "instantiate", "ExecMsg": "exec", "QueryMsg": "query", "SudoMsg": "sudo", "MigrateMsg": "migrate",
          "IfExecMsg": "exec", "IfQueryMsg": "query", "IfSudoMsg": "sudo"}


def check(res, pid, where, o, params, used, wheres, src):
    def bad(what, cls):
        res.violation({"kind": "generics", "cls": cls, "pid": pid, "program": src, "what": "%s: %s" % (pid, what)})
    if o.get("dirty") or o.get("panic") or not o.get("out_parse_ok"):
        bad("valid generic program rejected (dirty=%s panic=%s)" % (o.get("dirty"), o.get("panic")), "rejected")
        return
    _, items = model.sv_items(o)
    nwhere = [norm(w) for w in wheres]
    for it in items:
        k = it.get("k")
        if k in ("enum", "struct") and it["name"] in MSG_OF:
            kind = MSG_OF[it["name"]]
            if where == "contract" and it["name"].startswith("If"):
                continue
            res.add(transitions=1)
            got = it["generics"]
            want = used[kind]
            res.outcome((kind, len(want)))
            if len(set(got)) != len(got):
                bad("%s lists a parameter twice: %s" % (it["name"], got), "duplicate")
            if set(got) != set(want):
                bad("%s is parameterised by %s, its handlers use %s" % (it["name"], got, want), "param_set")
            for w in it["where"]:
                if not set(pred_params(w, params)) <= set(got):
                    bad("%s constrained by `%s` which mentions a foreign parameter" % (it["name"], w), "where_foreign")
            # the marker variant that carries the parameters must never be reachable from the wire
            for v in it.get("variants", []):
                if v["name"] == "_Phantom" and not any(norm(a) == "#[serde(skip)]" for a in v["attrs"]):
                    bad("%s has a parameter-marker variant that is not skipped by serde: the type accepts a message name no handler has" % it["name"], "phantom_not_skipped")
        if k == "impl" and it.get("trait") is None:
            st = norm(it["self_ty"]).split("<")[0]
            if st in MSG_OF and not (where == "contract" and st.startswith("If")):
                kind = MSG_OF[st]
                got = it["generics"]
                if set(got) != set(used[kind]) or len(set(got)) != len(got):
                    bad("impl block of %s has parameters %s, expected %s" % (st, got, used[kind]), "impl_param_set")
                for w in it["where"]:
                    if not set(pred_params(w, params)) <= set(got):
                        bad("impl of %s constrained by `%s` which mentions a foreign parameter" % (st, w), "where_foreign")
                if where == "contract" and kind in ("instantiate", "migrate"):
                    eligible = [w for w in nwhere if set(pred_params(w, params)) <= set(used[kind])]
                    gotw = [norm(w) for w in it["where"]]
                    if sorted(gotw) != sorted(eligible):
                        bad("impl of %s carries bounds %s, the user's bounds over its parameters are %s" % (st, it["where"], eligible), "where_set")
                for f in it["items"]:
                    if f.get("k") == "fn" and f["name"] == "dispatch":
                        extra = [g for g in f["generics"] if g not in ("ContractT", "SvContractT")]
                        if where == "contract" and set(extra) | set(got) != set(params):
                            bad("dispatch of %s introduces %s next to %s; all parameters are %s" % (st, extra, got, params), "dispatch_unused")
                        if set(extra) & set(got):
                            bad("dispatch of %s re-declares %s" % (st, sorted(set(extra) & set(got))), "dispatch_shadow")


def run_e1(res, tier):
    progs = list(programs(tier))
    recs, meta = [], {}
    for pid, where, obj, params, used, wheres in progs:
        r = model.e1_contract_record(pid, obj, want="items") if where == "contract" else model.e1_interface_record(pid, obj, want="items")
        recs.append(r)
        meta[pid] = (where, params, used, wheres, r["item"])
    obs = core.e1_run(recs, "c15-" + tier)
    for o in obs:
        where, params, used, wheres, src = meta[o["id"]]
        res.add(states=1, evaluations=1)
        if any(used.values()):
            res.mark_nontrivial("e1:" + o["id"])
        check(res, o["id"], where, o, params, used, wheres, src)
    res.parts["e1_programs"] = len(progs)
    res.sample({"e1_program": recs[len(recs) // 2]["item"]})


# ---------------------------------------------------------------------------------------------
# E2: generic contracts instantiated with concrete types; messages named with just the used ones

def e2_programs(tier):
    out = []
    combos = [
        ("pg0", ["TA"], [PATTERNS[1]], ["TA: Clone"], {"TA": "u32"}),
        ("pg1", ["TA", "TB"], [PATTERNS[2], PATTERNS[3]], ["TA: Clone", "TB: Clone"], {"TA": "String", "TB": "u32"}),
        ("pg2", ["TA", "TB"], [PATTERNS[9], PATTERNS[0]], ["TA: Into<TB>", "TB: Clone"], {"TA": "u32", "TB": "u64"}),
        ("pg3", ["TA", "TB", "TD"], [PATTERNS[6], PATTERNS[7], PATTERNS[8]], [], {"TA": "Inner", "TB": "bool", "TD": "String"}),
        ("pg4", ["TA", "TB"], [PATTERNS[4], PATTERNS[5]], ["TA: Clone"], {"TA": "u32", "TB": "String"}),
        ("pg5", ["TA", "TB", "TD"], [PATTERNS[11], PATTERNS[10], PATTERNS[0]], ["TD: Clone"], {"TA": "En", "TB": "u32", "TD": "u64"}),
        ("pg6", ["TA", "TB", "TD"], [PATTERNS[12], PATTERNS[13], PATTERNS[14]], [], {"TA": "String", "TB": "Inner", "TD": "u32"}),
    ]
    if tier == "thorough":
        k = 7
        for pats in itertools.product(PATTERNS[:10] + PATTERNS[12:15], repeat=2):   # the last two patterns name types that exist only for E1
            combos.append(("pg%d" % k, ["TA", "TB"], list(pats), ["TA: Clone"], {"TA": "u32", "TB": "String"}))
            k += 1
    BOUNDS = "sylvia::serde::Serialize + sylvia::serde::de::DeserializeOwned + std::fmt::Debug + Clone + PartialEq + sylvia::schemars::JsonSchema + 'static"
    # extended shapes (legal Rust that stresses the helper traits' handling of the where-clause)
    combos.append(("pgx_two_preds", ["TA"], [PATTERNS[1]], ["TA: Clone"], {"TA": "u32"}))
    combos.append(("pgx_nonparam_pred", ["TA"], [PATTERNS[1]], ["Vec<TA>: Clone"], {"TA": "u32"}))
    for pid, params, pats, wheres, conc in combos:
        ext = pid.startswith("pgx")
        ws = []
        extra = list(wheres)
        for p in params:
            mine = [w.split(":", 1)[1].strip() for w in extra if w.startswith(p + ":")] if not ext else []
            extra = [w for w in extra if ext or not w.startswith(p + ":")]
            ws.append("%s: %s" % (p, " + ".join([BOUNDS] + mine)))
        c, used = build_contract(params, pats, ws + extra)
        c.concrete = tuple(conc[p] for p in params)
        c.entry_points = "generics<%s>" % ", ".join(c.concrete)
        out.append((pid, c, params, used, conc))
    # parameters first used in an order other than their declaration order, several per message kind (the accessor
    # aliases, the message types and their impls must agree on one order; message types are reached through ContractApi)
    W = ["%s: %s" % (p, BOUNDS) for p in ("TA", "TB", "TD")]
    for j, perm in enumerate([("TB", "TA", "TD"), ("TD", "TB", "TA"), ("TB", "TD", "TA")]):
        a, b, d = perm
        ms = [Method("instantiate", "inst", (Arg("x1", a), Arg("x2", "Vec<%s>" % b))),
              Method("exec", "e_h", (Arg("x1", a), Arg("x2", b), Arg("x3", "Option<%s>" % d), Arg("x4", "Vec<%s>" % a))), Method("exec", "e_plain", (Arg("n", "u32"),)),
              Method("query", "q_args", (Arg("x1", "Vec<%s>" % d), Arg("x2", a))), Method("query", "q_ret0", (), qret="(%s, u32)" % b, body="{ todo!() }"),
              Method("sudo", "s_h", (Arg("x1", "Vec<(%s, u32)>" % d), Arg("x2", "[%s; 2]" % a))),
              Method("migrate", "mig", (Arg("x1", d), Arg("x2", a)))]
        c = Contract(methods=tuple(ms), generics=(("TA", ""), ("TB", ""), ("TD", "")), where=tuple(W),
                     new="pub const fn new() -> Self { Self { _p: std::marker::PhantomData } }")
        conc = {"TA": "u32", "TB": "String", "TD": "bool"}
        c.concrete = tuple(conc[p] for p in ("TA", "TB", "TD"))
        c.entry_points = "generics<%s>" % ", ".join(c.concrete)
        out.append(("pgr%d" % j, c, ["TA", "TB", "TD"], None, conc))
    return out


def subst(ty, conc):
    for p, t in conc.items():
        ty = re.sub(r"\b%s\b" % p, t, ty)
    return ty


def run_e2(res, tier, extended=True):
    progs = [p for p in e2_programs(tier) if extended or not p[0].startswith("pgx")]
    cp = e2.Corpus(("generic-" if extended else "genericbase-") + tier)
    recs = [model.e1_contract_record(pid, c, want="items") for pid, c, params, used, conc in progs]
    obs = {o["id"]: o for o in core.e1_run(recs, "generic-" + tier)}
    for pid, c, params, used, conc in progs:
        names = {("contract", k): fns for k, fns in e2.e1_names(obs[pid]).items()}
        arms = e2.basic_glue(c, None)
        # static assertion: each message type is nameable with just its used parameters (declaration order)
        asserts = []
        for kind, tn in (model.MSG_NAME.items() if used is not None else ()):
            if kind == "migrate" and not any(m.kind == "migrate" for m in c.methods):
                continue
            if kind == "reply":
                continue
            ps = ", ".join(conc[p] for p in used[kind])
            asserts.append("let _: Option<sv::%s%s> = None;" % (tn, ("<" + ps + ">") if ps else ""))
        glue = e2.subject_impl(arms) + "\n#[allow(dead_code)]\nfn _named_with_used_parameters_only() {\n    %s\n}\n" % "\n    ".join(asserts)
        text = e2.render_program(pid, c, glue=glue).replace("type AliasedResult", "type _Unused")
        text = text.replace("use vsupport::{json, Value};", "use vsupport::{json, Value};\ntype AliasedResult = StdResult<u32>;")
        cp.add(pid, text)
    # interfaces with several associated types whose order of first use differs from their declaration order,
    # implemented by a contract (the accessor types must line up with the generated enums' own parameters)
    B = "sylvia::serde::Serialize + sylvia::serde::de::DeserializeOwned + std::fmt::Debug + Clone + PartialEq + sylvia::schemars::JsonSchema"
    iface_progs = []
    for j, order in enumerate([("set_right", "set_left", "get_both"), ("set_left", "set_right", "get_both"), ("get_both", "set_right", "set_left")]):
        meths = {"set_right": Method("exec", "set_right", (Arg("r", "Self::RightT"),)),
                 "set_left": Method("exec", "set_left", (Arg("l", "Option<Self::LeftT>"), Arg("m", "Self::MidT"))),
                 "get_both": Method("query", "get_both", (Arg("x", "Self::RightT"), Arg("y", "Vec<Self::LeftT>")))}
        i0 = Interface(name="Ifg", module="ifg", methods=tuple(meths[n] for n in order) + (Method("sudo", "poke", (Arg("z", "Self::MidT"),)),),
                       assoc=(("LeftT", B), ("MidT", B), ("RightT", B)), custom="msg=Empty, query=Empty",
                       assoc_impl=(("LeftT", "u32"), ("MidT", "bool"), ("RightT", "String")))
        c = Contract(methods=(Method("instantiate", "inst", ()), Method("exec", "own", ())), interfaces=(i0,), entry_points="")
        pid = "pgi%d" % j
        iface_progs.append((pid, c, i0))
        cp.add(pid, e2.render_program(pid, c, glue=e2.subject_impl(e2.basic_glue(c, None))))
    cp.write()
    cp.build()
    cases, exp = [], []
    conc_i = {"Self::LeftT": "u32", "Self::MidT": "bool", "Self::RightT": "String"}
    for pid, c, i0 in iface_progs:
        if pid in cp.failed:
            res.violation({"kind": "compile", "cls": "generic_program_rejected", "pid": pid, "diags": cp.failed[pid][:3],
                           "what": "%s: interface with three associated types (methods declared in the order %s) implemented by a contract does not compile: %s" % (
                               pid, [m.name for m in i0.methods], cp.failed[pid][0]["message"])})
            continue
        for m in i0.methods:
            cm = Method(m.kind, m.name, tuple(Arg(a.name, subst(a.ty, conc_i).replace("Self::", "")) for a in m.args))
            cm = Method(m.kind, m.name, tuple(Arg(a.name, a.ty.replace("Self::LeftT", "u32").replace("Self::MidT", "bool").replace("Self::RightT", "String")) for a in m.args))
            tup = tuple(compose_value(a.ty) for a in cm.args)
            d = fam_basic.doc(cm, tup)
            cases.append({"prog": pid, "op": "dispatch", "kind": m.kind, "part": "wrapper", "input": d, "ctx": fam_basic.CONTEXTS[1]})
            exp.append((pid, Method(cm.kind, cm.name, cm.args), tup, d))
    for pid, c, params, used, conc in progs:
        if pid in cp.failed:
            res.violation({"kind": "compile", "cls": "generic_program_rejected", "pid": pid, "diags": cp.failed[pid][:3], "codes": sorted(set(d["code"] for d in cp.failed[pid] if d.get("code"))),
                           "what": "%s: generic contract instantiated with %s (messages named with their used parameters only) does not compile: %s" % (
                               pid, conc, cp.failed[pid][0]["message"])})
            continue
        for m in c.methods:
            if m.body is not None:
                continue
            cm = Method(m.kind, m.name, tuple(Arg(a.name, subst(a.ty, conc)) for a in m.args))
            try:
                tups = fam_basic.value_tuples(cm)[:3]
            except KeyError:
                # composite types: build values from the element alphabet
                tups = []
                vals = []
                for a in cm.args:
                    vals.append(compose_value(a.ty))
                tups = [tuple(vals)]
            for tup in tups:
                d = fam_basic.doc(cm, tup)
                route = "wrapper" if m.kind in ("exec", "query", "sudo") else "contract"
                cases.append({"prog": pid, "op": "dispatch", "kind": m.kind, "part": route, "input": d, "ctx": fam_basic.CONTEXTS[1]})
                exp.append((pid, cm, tup, d))
    probes = []
    for pid, c, params, used, conc in progs:
        if pid in cp.failed:
            continue
        for kind in ("exec", "query", "sudo"):
            for d in ('{"_phantom":null}', '{"__phantom":null}', '{"_phantom":[]}', '"_phantom"', '{"_Phantom":null}'):
                for part in ("contract", "wrapper"):
                    probes.append({"prog": pid, "op": "decode", "kind": kind, "part": part, "input": d})
    for pc, o in zip(probes, cp.run_cases(probes)):
        res.add(states=1, transitions=1, traces=1, evaluations=1)
        if o.get("ok"):
            res.violation({"kind": "behaviour", "cls": "phantom_accepted", "pid": pc["prog"], "doc": pc["input"], "obs": o,
                           "what": "%s: %s message type accepts %s, which names no handler" % (pc["prog"], pc["kind"], pc["input"])})
    obs2 = cp.run_cases(cases)
    for case, e, o in zip(cases, exp, obs2):
        pid, cm, tup, d = e
        res.add(states=1, transitions=1, traces=1, evaluations=1)
        res.mark_nontrivial("e2:%s|%s" % (pid, d))
        if o.get("res") != "ok":
            res.violation({"kind": "behaviour", "cls": "generic_dispatch", "pid": pid, "doc": d, "obs": o,
                           "what": "%s: generic contract does not behave like the non-generic case for %s: %s" % (pid, d, o)})
            continue
        if cm.kind == "query":
            if cm.qret != "vsupport::EchoResp" and cm.name != "q_args":
                continue
            continue
        got = json.loads([a for a in o["resp"]["attributes"] if a["key"] == "echo"][0]["value"])
        want = fam_basic.expected_echo("Ifg" if pid.startswith("pgi") else "Ct", cm, tup, fam_basic.CONTEXTS[1])
        if got != want:
            res.violation({"kind": "behaviour", "cls": "generic_echo", "pid": pid, "doc": d, "what": "%s: echo %s differs from model %s" % (pid, got, want)})
    res.parts["e2_programs"] = len(progs)
    res.parts["e2_cases"] = len(cases)


def compose_value(ty):
    ty = ty.strip()
    if ty in model.TYPE_VALUES:
        return model.TYPE_VALUES[ty][-1]
    m = re.match(r"^Vec<(.*)>$", ty)
    if m:
        return "[" + compose_value(m.group(1)) + "]"
    m = re.match(r"^Option<(.*)>$", ty)
    if m:
        return compose_value(m.group(1))
    m = re.match(r"^\((.*), u32\)$", ty)
    if m:
        return "[" + compose_value(m.group(1)) + ",5]"
    m = re.match(r"^\[(.*); 2\]$", ty)
    if m:
        v = compose_value(m.group(1))
        return "[" + v + "," + v + "]"
    raise core.MachineryError("no value for type " + ty)


def run(tier):
    res = core.Result("C15", tier)
    run_e1(res, tier)
    run_e2(res, tier)
    res.cov["rule"] = ("E1: generic contracts with 1-3 type parameters, each parameter independently following one of %d usage patterns (unused; direct / Vec / "
                       "Option<Vec> / tuple / array argument in one or two kinds; query response type directly or inside Vec; only via resp=), crossed with "
                       "where-clause variants (none, one bound per parameter, several bounds, higher-ranked, a bound relating two parameters); interfaces with "
                       "1-2 (thorough 3) associated types placed likewise.  Oracle per generated message type: parameter set == used set, no duplicates, bounds "
                       "mention only own parameters, struct messages carry exactly the eligible user bounds, dispatch introduces exactly the unused ones. "
                       "E2: generic contracts instantiated with concrete types whose message types are *named with just the used parameters* and dispatched like "
                       "non-generic ones.  non-trivial = program using at least one parameter" % len(PATTERNS))
    res.assumptions += ["projections of a parameter (T::Assoc) are outside the alphabet (the property quantifies over direct, nested, unused)",
                        "parameter order inside a generated type is not constrained, only the set"]
    return res.finish()
