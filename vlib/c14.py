"""C14 — behaviour does not depend on the order of declarations."""
import itertools
import json
import re
from dataclasses import replace

from . import core, model, e2, fam_basic, fam_reply, c07
from .model import Method, Arg, Contract, Interface, norm, serde_snake
from .fam_reply import RM

ID = r"[\w#]+"


def canon(o, mac):
    """Order-insensitive observation of one expansion."""
    if o.get("panic"):
        return {"rejected": "panic"}
    if o.get("dirty") or o.get("has_compile_error"):
        return {"rejected": True}
    out = {"rejected": False, "source_kept_as_written": o.get("passthrough_ok")}
    name, items = model.sv_items(o)
    if name == "entry_points":
        out["entry_points"] = sorted((f["name"], norm(f["sig"])) for f in items if f.get("k") == "fn")
        return out
    types = {}
    for it in items:
        if it.get("k") == "enum":
            types[it["name"]] = sorted((serde_snake(v["name"]), tuple((f["name"], norm(f["ty"]), tuple(norm(a) for a in f["attrs"])) for f in v["fields"]),
                                        tuple(sorted(norm(a) for a in v["attrs"]))) for v in it["variants"])
            types[it["name"] + "#attrs"] = sorted(norm(a) for a in it["attrs"])
            types[it["name"] + "#generics"] = sorted(it["generics"])
        if it.get("k") == "struct":
            types[it["name"]] = [(f["name"], norm(f["ty"])) for f in it["fields"]]
            types[it["name"] + "#attrs"] = sorted(norm(a) for a in it["attrs"])
    out["types"] = types
    tables, dispatch, consts, builders, reply = {}, {}, [], {}, {}
    for it in items:
        if it.get("k") == "fn" and it["name"].endswith("_messages"):
            tables[it["name"]] = sorted(re.findall(r'"((?:[^"\\]|\\.)*)"', it.get("body", "")))
        if it.get("k") == "const" and it["name"].endswith("_REPLY_ID"):
            consts.append(it["name"])
        if it.get("k") == "impl" and it.get("trait") is None:
            st = norm(it["self_ty"]).split("<")[0]
            for f in it["items"]:
                if f.get("k") == "fn" and f["name"] == "dispatch" and "arms" in f:
                    arms = {}
                    for a in f["arms"]:
                        if norm(a["on"]) != "self":
                            continue
                        pat = norm(a["pat"])
                        pm = re.match(r"^(%s)\{((?:%s:%s,)*)\}$" % (ID, ID, ID), pat)
                        if pm:
                            binds = dict(x.split(":") for x in pm.group(2).split(",") if x)
                            inv = {v: k for k, v in binds.items()}
                            body = norm(a["body"])
                            bm = re.search(r"contract\.(%s)\(Into::into\(ctx\)((?:,%s)*),?\)" % (ID, ID), body)
                            if bm:
                                passed = [inv.get(x, x) for x in bm.group(2).split(",") if x]
                                arms[pm.group(1)] = (bm.group(1), tuple(passed), "to_json_binary" in body)
                            else:
                                arms[pm.group(1)] = ("?", body)
                        else:
                            arms[pat.split("(")[0]] = ("wrapped", re.sub(r"\s+", "", a["body"]))
                    dispatch[st] = sorted(arms.items())
        if it.get("k") == "impl" and it.get("trait") and "SubMsgMethods" in it["trait"] and "SubMsg<" in norm(it["self_ty"]):
            for f in it["items"]:
                if f.get("k") == "fn":
                    body = norm(f.get("body", ""))
                    ro = re.search(r"reply_on:sylvia::cw_std::ReplyOn::(\w+)", body)
                    idc = re.search(r"id:(\w+_REPLY_ID)", body)
                    builders[f["name"]] = (tuple((norm(p["name"]), norm(p["ty"])) for p in f["params"][1:]), ro.group(1) if ro else None, idc.group(1) if idc else None,
                                           "to_json_binary" in body)
        if it.get("k") == "fn" and it["name"] == "dispatch_reply" and "arms" in it:
            # the collector lists the arms of the outer `match id` first, then the nested `match result`
            # arms in the order of their enclosing id arms
            id_arms = [norm(a["pat"]) for a in it["arms"] if norm(a["on"]) == "id" and norm(a["pat"]) != "_"]
            res_arms = [a for a in it["arms"] if norm(a["on"]) == "result"]
            if len(res_arms) != 2 * len(id_arms):
                # another layout than "one Ok and one Err arm per id": the arms cannot be attributed to ids from the flat list;
                # keep the order-insensitive multiset of (outcome, handler) pairs (the compiled twins decide the routing itself)
                flat = []
                for a in res_arms:
                    pat, body = norm(a["pat"]), norm(a["body"])
                    cm = re.search(r"::new\(\)\.(%s)\(" % ID, body)
                    flat.append(("ok" if "SubMsgResult::Ok" in pat else "err", cm.group(1) if cm else "pass"))
                reply["?arms"] = sorted(flat)
                id_arms = []
            for k, cur in enumerate(id_arms):
                reply[cur] = {}
                for a in res_arms[2 * k: 2 * k + 2]:
                    pat, body = norm(a["pat"]), norm(a["body"])
                    side = "ok" if pat.startswith("sylvia::cw_std::SubMsgResult::Ok") else "err"
                    cm = re.search(r"::new\(\)\.(%s)\(\((.*?)\)\.into\(\),(.*)\)\}?$" % ID, body)
                    if cm:
                        reply[cur][side] = (cm.group(1), cm.group(3).rstrip("}").rstrip(")"),
                                            "parse_execute_response_data" in body, "parse_instantiate_response_data" in body, "Missingreplydatafield" in body,
                                            "from_json(&payload)" in body)
                    else:
                        reply[cur][side] = ("pass",)
    out["tables"] = tables
    out["dispatch"] = dispatch
    out["reply_consts"] = sorted(consts)
    out["builders"] = sorted(builders.items())
    out["reply"] = sorted(reply.items())
    return out


def perms_of(seq, limit=None):
    ps = list(itertools.permutations(range(len(seq))))
    return ps if not limit else ps[:limit]


def method_programs(tier):
    """Contracts / interfaces with <= 4 handlers whose methods are permuted."""
    a = (Arg("a", "u32"), Arg("b1", "String"))
    sets = [
        [Method("exec", "foo", a), Method("exec", "bar_baz", ()), Method("query", "get_x", (Arg("k", "u32"),), qret="u32"), Method("sudo", "sd", ())],
        [Method("exec", "a", ()), Method("exec", "a_b", a), Method("exec", "ab", ()), Method("exec", "foo1", (Arg("x", "bool"),))],
        [Method("query", "q1", (), qret="u32"), Method("query", "q2", a, qret="String"), Method("migrate", "mig", (Arg("v", "u32"),)), Method("exec", "e", ())],
    ]
    if tier == "thorough":
        sets.append([Method("sudo", "s1", a), Method("sudo", "s2", ()), Method("query", "zz", (), qret="u32"), Method("exec", "zz_x", ())])
    for si, ms in enumerate(sets):
        for p in perms_of(ms):
            c = Contract(methods=(Method("instantiate", "inst", (Arg("i", "u32"),)),) + tuple(ms[k] for k in p))
            yield ("mct%d" % si, "".join(map(str, p)), "contract", c)
            # instantiate moved to every position
            full = [Method("instantiate", "inst", (Arg("i", "u32"),))] + ms
        for p in perms_of(list(range(5)), None)[:: (7 if tier == "quick" else 1)]:
            full = [Method("instantiate", "inst", (Arg("i", "u32"),))] + ms
            yield ("mct%d" % si, "f" + "".join(map(str, p)), "contract", Contract(methods=tuple(full[k] for k in p)))
        ims = [m for m in ms if m.kind in ("exec", "query", "sudo")]
        for p in perms_of(ims):
            i = Interface(name="If", module="ifc", methods=tuple(ims[k] for k in p), custom="msg=Empty, query=Empty")
            yield ("mif%d" % si, "".join(map(str, p)), "interface", i)


def reply_groups(tier):
    """Multisets of reply methods (fixed fn name per method) in every declaration order."""
    specs = [
        RM(fn="sh", handlers=("h",), on="success", data="raw,opt"), RM(fn="eh", handlers=("h",), on="error"), RM(fn="ah", handlers=("h",), on="always"),
        RM(fn="sg", handlers=("g",), on="success"), RM(fn="eg", handlers=("g",), on="error"), RM(fn="shg", handlers=("h", "g"), on="success"),
        RM(fn="ehg", handlers=("h", "g"), on="error", payload=("raw",)), RM(fn="own", on=None), RM(fn="st", handlers=("t",), on="success", payload=("u32", "String")),
        RM(fn="et", handlers=("t",), on="error", payload=("u32", "String")), RM(fn="et_bad", handlers=("t",), on="error", payload=("u32",)),
        RM(fn="sd", handlers=("d",), on="success", data="typed", data_ty="String", payload=("u32",)), RM(fn="ed", handlers=("d",), on="error", payload=("u32",)),
        RM(fn="si", handlers=("i",), on="success", data="instantiate,opt"), RM(fn="ei", handlers=("i",), on="error"),
        RM(fn="su", handlers=("u",), on="success", raw_marked=False), RM(fn="eu", handlers=("u",), on="error"),
        RM(fn="ehu", handlers=("h",), on="error", raw_marked=False), RM(fn="sdu", handlers=("d",), on="success", data="typed", data_ty="String", payload=("raw",)),
        RM(fn="edu", handlers=("d",), on="error", payload=("raw",), raw_marked=False),
    ]
    n = 3 if tier == "thorough" else 2
    gid = 0
    for size in range(2, n + 1):
        for combo in itertools.combinations(specs, size):
            gid += 1
            for p in itertools.permutations(combo):
                yield ("rg%d" % gid, "".join(r.fn + "." for r in p), "contract", fam_reply.contract_of(list(p), entry_points=None))
    if tier == "quick":
        for combo in [(specs[0], specs[1], specs[3]), (specs[8], specs[9], specs[7]), (specs[11], specs[12], specs[2]), (specs[5], specs[6], specs[1])]:
            gid += 1
            for p in itertools.permutations(combo):
                yield ("rg%d" % gid, "".join(r.fn + "." for r in p), "contract", fam_reply.contract_of(list(p), entry_points=None))


def attr_programs(tier):
    """Contracts whose repeatable attributes (sv::messages, override_entry_point, msg_attr) are permuted."""
    ifs = tuple(Interface(name="If%d" % j, module="if%d" % j, methods=(Method("exec", "e%d" % j, ()), Method("query", "q%d" % j, (), qret="u32")),
                          custom="msg=Empty, query=Empty", messages_custom=("custom(msg)" if j == 1 else None)) for j in range(3))
    base = Contract(methods=(Method("instantiate", "inst", ()), Method("exec", "own", ()), Method("migrate", "mig", ())), interfaces=ifs, custom="msg=MyMsg",
                    overrides=("exec=crate::ovr::exec_ep(crate::ovr::ExecMsgX)", "sudo=crate::ovr::sudo_ep(crate::ovr::SudoMsgX)", "migrate=crate::ovr::migrate_ep(crate::ovr::MigrateMsgX)"),
                    msg_attrs=("exec, derive(PartialOrd)", "query, derive(PartialOrd)", "exec, doc = \"x\""), error="ContractError", entry_points="")
    lines = model.contract_attr_lines(base)
    n = len(lines)
    groups = {}
    for k, l in enumerate(lines):
        key = "messages" if "sv::messages" in l else "override" if "override_entry_point" in l else "msg_attr" if "sv::msg_attr" in l else "single"
        groups.setdefault(key, []).append(k)
    perms = []
    gm, go, ga = groups["messages"], groups["override"], groups["msg_attr"]
    inner = list(itertools.permutations(range(3)))
    for pm in inner:
        for po in inner:
            for pa in (inner if tier == "thorough" else inner[::5]):
                order = list(range(n))
                for grp, pp in ((gm, pm), (go, po), (ga, pa)):
                    for slot, src in zip(grp, pp):
                        order[slot] = grp[src]
                perms.append(tuple(order))
    # whole-list rotations and the reversal mix the groups with the single attributes
    for r in range(1, n):
        perms.append(tuple(range(r, n)) + tuple(range(r)))
    perms.append(tuple(reversed(range(n))))
    seen = set()
    for p in perms:
        if p in seen:
            continue
        seen.add(p)
        c = replace(base, attr_order=tuple(p))
        tag = ".".join(map(str, p))
        yield ("attrs0", tag, "contract", c)
        yield ("attrs0ep", tag, "entry_points", c)


def method_attr_programs(tier):
    """Handlers whose own attribute lines (two forwarded `sv::attr`s, a foreign attribute and the kind annotation) are written
    in every order, with attributed parameters: which line comes first must not matter."""
    A = '#[sv::attr(serde(alias = "al_a"))]'
    B = '#[sv::attr(doc = "fwd")]'
    F = '#[allow(unused_variables)]'
    lines = [A, B, F, "MSG"]
    for where in ("contract", "interface"):
        for perm in itertools.permutations(range(4)):
            order = [lines[k] for k in perm]
            cut = order.index("MSG")
            above, below = tuple(order[:cut]), tuple(order[cut + 1:])
            ms = []
            for kind, nm in (("exec", "foo"), ("query", "get_x"), ("sudo", "sd")):
                ms.append(Method(kind, nm, (Arg("a", "u32", ("#[serde(default)]",)), Arg("b1", "String", ("#[allow(unused)]",))), attrs=above, sv_attrs=below,
                                 qret="u32" if kind == "query" else None))
            if where == "contract":
                yield ("mattr_ct", "".join(map(str, perm)), "contract", Contract(methods=(Method("instantiate", "inst", ()),) + tuple(ms)))
            else:
                yield ("mattr_if", "".join(map(str, perm)), "interface", Interface(name="If", module="ifc", methods=tuple(ms), custom="msg=Empty, query=Empty"))


def item_position_programs(tier):
    """The same handlers with an associated const and a helper method standing at every position among them."""
    a = (Arg("a", "u32"),)
    hs = (Method("instantiate", "inst", a), Method("exec", "e_one", a), Method("query", "q_one", a, qret="u32"), Method("exec", "e_two", ()), Method("sudo", "s_one", a))
    for pos in range(len(hs) + 1):
        for pos2 in (0, len(hs)):
            mids = ((pos, "pub const LIMIT: u32 = 3;"), (pos2, "fn helper(&self) -> u32 { Self::LIMIT }"))
            mids_in = tuple(m for m in mids if m[0] < len(hs))
            extra = tuple(t for (p, t) in mids if p >= len(hs))
            yield ("mitems_ct", "%d.%d" % (pos, pos2), "contract", Contract(methods=hs, mid_items=mids_in, extra_items=extra))


def run_e1(res, tier):
    recs, meta = [], {}
    for gen in (method_programs, reply_groups, attr_programs, method_attr_programs, item_position_programs):
        for gid, perm, mac, obj in gen(tier):
            pid = "%s:%s" % (gid, perm)
            if pid in meta:
                continue
            want = "items,bodies=dispatch|dispatch_reply|execute_messages|query_messages|sudo_messages|" + "|".join(["h", "g", "t", "d", "i", "u", "own"])
            if mac == "interface":
                r = model.e1_interface_record(pid, obj, want=want)
            elif mac == "entry_points":
                r = model.e1_entry_points_record(pid, obj, want="items")
            else:
                r = model.e1_contract_record(pid, obj, want=want)
            recs.append(r)
            meta[pid] = (gid, mac, r["item"])
    obs = core.e1_run(recs, "c14-" + tier)
    groups = {}
    for o in obs:
        gid, mac, src = meta[o["id"]]
        res.add(states=1, transitions=1, evaluations=1)
        groups.setdefault(gid, []).append((o["id"], json.dumps(canon(o, mac), sort_keys=True), src))
    for gid, members in sorted(groups.items()):
        ref_id, ref, ref_src = members[0]
        distinct = {}
        for pid, c, src in members:
            distinct.setdefault(c, (pid, src))
            res.mark_nontrivial("e1:" + pid)
        res.outcome((gid[:3], len(distinct)))
        if len(distinct) > 1:
            items = list(distinct.items())
            a, b = json.loads(items[0][0]), json.loads(items[1][0])
            diff = sorted(k for k in set(a) | set(b) if a.get(k) != b.get(k))
            detail = ""
            for k in diff[:2]:
                detail += " %s: %s vs %s;" % (k, json.dumps(a.get(k))[:260], json.dumps(b.get(k))[:260])
            res.violation({"kind": "order", "cls": "order_dependent:" + ",".join(diff), "group": gid, "orders": [v[0] for v in distinct.values()][:4],
                           "program_a": items[0][1][1], "program_b": items[1][1][1],
                           "what": "group %s: %d different observations over %d declaration orders (differs in %s):%s" % (gid, len(distinct), len(members), diff, detail)})
    res.parts["e1_programs"] = len(recs)
    res.parts["e1_groups"] = len(groups)
    res.sample({"group": "rg1", "orders": [m[0] for m in groups.get("rg1", [])][:6]})


def run_e2(res, tier):
    """Compiled twins: the same traces on a program and its reversed / rotated declaration order."""
    base = [pc for pc in fam_basic.programs(tier) if pc[0] in ("pparts2", "psame0", "ptypes0", "pprefix0")]
    cp = e2.Corpus("order-" + tier)
    progs = []
    # parameters / associated types whose order of first use changes with the declaration order of the methods
    from . import c15
    B = "sylvia::serde::Serialize + sylvia::serde::de::DeserializeOwned + std::fmt::Debug + Clone + PartialEq + sylvia::schemars::JsonSchema"
    i0 = Interface(name="Ifg", module="ifg", assoc=(("LeftT", B), ("MidT", B), ("RightT", B)), custom="msg=Empty, query=Empty",
                   assoc_impl=(("LeftT", "u32"), ("MidT", "bool"), ("RightT", "String")),
                   methods=(Method("exec", "set_right", (Arg("r", "Self::RightT"),)), Method("exec", "set_left", (Arg("l", "Option<Self::LeftT>"), Arg("m", "Self::MidT"))),
                            Method("query", "get_both", (Arg("x", "Self::RightT"), Arg("y", "Vec<Self::LeftT>"))), Method("query", "get_mid", (Arg("z", "Self::MidT"),)),
                            Method("sudo", "poke", (Arg("z", "Self::MidT"), Arg("w", "Self::LeftT")))))
    base.append(("passoc0", Contract(methods=(Method("instantiate", "inst", ()), Method("exec", "own", ())), interfaces=(i0,), entry_points=""), {"generic"}))
    W = tuple("%s: %s + 'static" % (q, B) for q in ("TA", "TB", "TD"))
    gms = (Method("instantiate", "inst", (Arg("x1", "TB"), Arg("x2", "Vec<TA>"))),
           Method("exec", "e_b", (Arg("x1", "TB"),)), Method("exec", "e_ad", (Arg("x1", "TA"), Arg("x2", "Option<TD>"))),
           Method("query", "q_d", (Arg("x1", "Vec<TD>"),)), Method("query", "q_ba", (Arg("x1", "TB"), Arg("x2", "TA"))),
           Method("sudo", "s_d", (Arg("x1", "TD"),)), Method("sudo", "s_a", (Arg("x1", "Vec<TA>"), Arg("x2", "TB"))))
    base.append(("pgord0", Contract(methods=gms, generics=(("TA", ""), ("TB", ""), ("TD", "")), where=W, concrete=("u32", "String", "bool"), entry_points="generics<u32, String, bool>",
                                    new="pub const fn new() -> Self { Self { _p: std::marker::PhantomData } }"), {"generic"}))
    CONC = {"Self::LeftT": "u32", "Self::MidT": "bool", "Self::RightT": "String", "TA": "u32", "TB": "String", "TD": "bool"}

    def concrete(m):
        args = []
        for a in m.args:
            t = a.ty
            for k, v in CONC.items():
                t = re.sub(r"(?<![\w:])%s\b" % re.escape(k), v, t)
            args.append(Arg(a.name, t))
        return replace(m, args=tuple(args))

    def tuples_of(m):
        try:
            return fam_basic.value_tuples(m)[:2]
        except KeyError:
            return [tuple(c15.compose_value(a.ty) for a in m.args)]
    for pid, c, tags in base:
        variants = {"fwd": c,
                    "rev": replace(c, methods=tuple(reversed(c.methods)), interfaces=tuple(replace(i, methods=tuple(reversed(i.methods))) for i in reversed(c.interfaces))),
                    "rot": replace(c, methods=c.methods[1:] + c.methods[:1], interfaces=c.interfaces[1:] + c.interfaces[:1])}
        for vn, vc in variants.items():
            progs.append((pid + "_" + vn, pid, vn, vc))
    rtabs = [("ro1", [RM(fn="on_s", handlers=("x",), on="success", data="raw,opt"), RM(fn="on_e", handlers=("x",), on="error"), RM(fn="alw", on="always"), RM(fn="p2", on="success", payload=("u32", "String"))])]
    for pid, rms in rtabs:
        for vn, order in (("fwd", rms), ("rev", list(reversed(rms))), ("rot", rms[1:] + rms[:1])):
            progs.append((pid + "_" + vn, pid, vn, ("reply", order)))
    recs = []
    for spid, pid, vn, c in progs:
        cc = fam_reply.contract_of(c[1]) if isinstance(c, tuple) else c
        recs.append(model.e1_contract_record(spid + ":ct", cc, want="items"))
    obs = {o["id"]: o for o in core.e1_run(recs, "order-" + tier)}
    for spid, pid, vn, c in progs:
        if isinstance(c, tuple):
            rms = c[1]
            cc = fam_reply.contract_of(rms)
            valid, _, names = fam_reply.table_model(rms)
            _, items = model.sv_items(obs[spid + ":ct"])
            cnames = [it["name"] for it in items if it.get("k") == "const" and it["name"].endswith("_REPLY_ID")]
            cp.add(spid, e2.render_program(spid, cc, glue=fam_reply.glue_for(cc, rms, names, dict(zip(names.keys(), cnames)))))
        else:
            cp.add(spid, e2.render_program(spid, c, glue=e2.subject_impl(e2.basic_glue(c, None))))
    cp.write()
    cp.build()
    groups = {}
    for spid, pid, vn, c in progs:
        groups.setdefault(pid, []).append((spid, vn, c))
    for pid, members in groups.items():
        for spid, vn, c in members:
            if spid in cp.failed:
                res.violation({"kind": "order", "cls": "twin_rejected", "pid": spid, "diags": cp.failed[spid][:2],
                               "what": "%s: declaration order `%s` of %s does not compile: %s" % (spid, vn, pid, cp.failed[spid][0]["message"])})
        members = [m for m in members if m[0] not in cp.failed]
        if len(members) < 2:
            continue
        per = {}
        if isinstance(members[0][2], tuple):
            for spid, vn, c in members:
                ids = {n: i for n, i in cp.run_cases([{"prog": spid, "op": "ids"}])[0]}
                cases = []
                for name, rid in sorted(ids.items()):
                    for ok in (True, False):
                        pl = b"pl" if name != "p2" else b'[7,"x"]'
                        cases.append({"prog": spid, "op": "ep", "kind": "reply", "input": fam_reply.reply_doc(rid, pl, 9, ok, fam_reply.EVENTS, b"\x01", []), "ctx": fam_basic.CONTEXTS[2], "_key": (name, ok)})
                outs = cp.run_cases([{k: v for k, v in cs.items() if k != "_key"} for cs in cases])
                per[vn] = {cs["_key"]: o for cs, o in zip(cases, outs)}
        else:
            c0 = members[0][2]
            cases = []
            for (label, disp, m) in fam_basic.handlers(c0):
                m = concrete(m)
                for tup in tuples_of(m):
                    d = fam_basic.doc(m, tup)
                    for op in ("ep", "mt"):
                        cases.append({"op": op, "kind": m.kind, "input": d, "ctx": fam_basic.CONTEXTS[1]})
                    if m.kind in ("exec", "query", "sudo"):
                        cases.append({"op": "decode", "kind": m.kind, "part": "wrapper", "input": d})
                        cases.append({"op": "decode", "kind": m.kind, "part": "wrapper", "input": d[:-1] + ',"zz":1}'})
            for k in ("exec", "query", "sudo"):
                cases.append({"op": "decode", "kind": k, "part": "wrapper", "input": '{"nope":{}}'})
            for spid, vn, c in members:
                outs = cp.run_cases([dict(cs, prog=spid) for cs in cases])
                per[vn] = {json.dumps(cs, sort_keys=True): o for cs, o in zip(cases, outs)}
        ref_vn = members[0][1]
        for vn, table in per.items():
            for key, o in table.items():
                res.add(states=1, transitions=1, traces=1, evaluations=1)
                res.mark_nontrivial("e2:%s|%s|%s" % (pid, vn, key))
                r = per[ref_vn][key]
                a, b = dict(o), dict(r)
                for d in (a, b):
                    # error texts list supported names in table order of parts; compare as sets of words
                    if d.get("ok") is False and "err" in d:
                        d["err"] = " ".join(sorted(re.findall(r"[\w:]+", re.sub(r"order_\w+_shard\d+::\w+", "", d["err"]))))
                if a != b:
                    res.violation({"kind": "order", "cls": "twin_differs", "pid": pid, "order": vn, "case": str(key)[:300], "obs": o, "ref": r,
                                   "what": "%s: order `%s` answers differently from `%s` for %s: %s vs %s" % (pid, vn, ref_vn, str(key)[:200], json.dumps(o)[:300], json.dumps(r)[:300])})
    res.parts["e2_programs"] = len(progs)


def run(tier):
    res = core.Result("C14", tier)
    run_e1(res, tier)
    run_e2(res, tier)
    res.cov["rule"] = ("E1: all permutations of the methods of 3-4 contracts/interfaces with 4 handlers (and of the instantiate handler's position), all declaration "
                       "orders of every 2-subset (thorough: 3-subset) of 17 reply methods (shared and separate names, all outcomes, data modes, payload signatures, "
                       "valid and invalid merges), and orderings of the contract's attribute lines (all 6x6 (thorough 6x6x6) within-group orders of 3 sv::messages, 3 overrides, 3 msg_attr, plus "
                       "all rotations and the reversal of the whole attribute list) for both macros; oracle: accept/reject and the order-insensitive observation (wire names and "
                       "fields per type, tables, dispatch target per variant, entry-point set, per reply name the success/error callee, data mode, payload "
                       "transport, builder signature and reply_on) identical within a group.  E2: compiled forward / reversed / rotated twins replaying the "
                       "same traces (reply ids mapped through names).  non-trivial = every permuted program / twin trace")
    res.assumptions += ["numeric reply ids and the order of names inside an 'unsupported message' error text are not compared"]
    return res.finish()
