"""C01 — generated messages have the JSON shape named by the method signature.

E1: structure of the generated type for every program of a name x kind x argument-list grammar.
E2: model documents decoded / re-serialised / constructed on the compiled `basic` corpus.
"""
import itertools
import json

from . import core, model, fam_basic
from .model import Method, Arg, Contract, Interface, N_IN, TYPES, TYPES_THOROUGH, ARG_NAMES_E1, norm, bare, serde_snake

ENUMK = ["exec", "query", "sudo"]


def e1_programs(tier):
    """Yields (pid, 'contract'|'interface', obj, [(kind, name, args)] expected handlers)."""
    types = [t for t, _ in TYPES] + (["Self::Assoc", "Vec<Self::Assoc>"] if False else [])
    names = N_IN
    arglists1 = [()] + [(t,) for t in types]
    arglists2 = [(a, b) for a in types for b in types]
    k = 0

    def mk(kind, name, tys, argnames=None):
        an = argnames or ARG_NAMES_E1
        return Method(kind, name, tuple(Arg(an[j % len(an)], t) for j, t in enumerate(tys)))

    def contract_of(ms):
        has_inst = any(m.kind == "instantiate" for m in ms)
        base = [] if has_inst else [Method("instantiate", "inst", ())]
        return Contract(methods=tuple(base + list(ms)))

    def iface_of(ms):
        return Interface(name="If", module="ifc", methods=tuple(ms), custom="msg=Empty, query=Empty")

    # (1) every argument list of arity <= 2 for one name per kind (quick) / every name (thorough)
    for kind in ["instantiate", "exec", "query", "sudo", "migrate"]:
        nms = names if tier == "thorough" else [names[(len(kind)) % len(names)]]
        for nm in nms:
            for tys in arglists1 + arglists2:
                m = mk(kind, nm, tys)
                yield ("ct:%s:%s:%s" % (kind, nm, "|".join(tys)), "contract", contract_of([m]), [m])
                if kind in ENUMK and (tier == "thorough" or len(tys) < 2 or tys[0] == tys[1]):
                    yield ("if:%s:%s:%s" % (kind, nm, "|".join(tys)), "interface", iface_of([m]), [m])
    # (2) every name x kind with a fixed two-argument list and every argument-name pair
    for kind in ["instantiate", "exec", "query", "sudo", "migrate"]:
        for nm in names:
            quick_pairs = [("a", "b1")] + ([("contract", "ctx"), ("field1", "self_"), ("msg", "contract")] if nm in ("foo", "foo1") else [])
            for (a1, a2) in (quick_pairs if tier == "quick" else list(itertools.permutations(ARG_NAMES_E1, 2))):
                m = Method(kind, nm, (Arg(a1, "u32"), Arg(a2, "String")))
                yield ("ct:%s:%s:n:%s,%s" % (kind, nm, a1, a2), "contract", contract_of([m]), [m])
                if kind in ENUMK:
                    yield ("if:%s:%s:n:%s,%s" % (kind, nm, a1, a2), "interface", iface_of([m]), [m])
    # (3) two-handler programs over all ordered name pairs, same kind and mixed kinds
    for kind in ENUMK:
        for n1, n2 in itertools.permutations(names, 2):
            ms = [Method(kind, n1, (Arg("a", "u32"),)), Method(kind, n2, (Arg("b1", "String"), Arg("a", "bool")))]
            yield ("ct2:%s:%s:%s" % (kind, n1, n2), "contract", contract_of(ms), ms)
            if tier == "thorough" or n1 < n2:
                yield ("if2:%s:%s:%s" % (kind, n1, n2), "interface", iface_of(ms), ms)
    for k1, k2 in itertools.permutations(ENUMK, 2):
        for n1 in names[:6]:
            ms = [Method(k1, n1, (Arg("a", "u32"),)), Method(k2, n1 + "_x", (Arg("a", "u32"),)), Method(k1, n1 + "_y", ())]
            yield ("ctm:%s:%s:%s" % (k1, k2, n1), "contract", contract_of(ms), ms)
            yield ("ifm:%s:%s:%s" % (k1, k2, n1), "interface", iface_of(ms), ms)
    # (4) arity 3 with a repeated type (thorough: all triples over a reduced type set)
    t3 = types[:6] if tier == "thorough" else types[:3]
    for tys in itertools.product(t3, repeat=3):
        m = mk("exec", "foo", tys)
        yield ("ct3:%s" % "|".join(tys), "contract", contract_of([m]), [m])


def generic_programs(tier):
    """(5) generic contracts and interfaces with associated types (the parameter placements of C15's grammar, one and two
    parameters, no where-clause variants): their message types, too, have exactly one variant per annotated method."""
    from . import c15
    for pid, where, obj, params, used, wheres in c15.programs(tier):
        if pid.startswith("g3:") or pid.startswith("i3:") or (where == "contract" and not pid.endswith(":none")):
            continue
        yield ("gen:" + pid, where, obj, [m for m in obj.methods])


def type_name_for(kind, where):
    return model.MSG_NAME[kind] if where == "contract" else "If" + model.MSG_NAME[kind]


def check_structure(res, pid, where, o, expected, src):
    """E1 oracle: one variant per annotated method of the kind (struct fields for instantiate /
    migrate), wire(variant) == method name, fields == arguments in order, serde attributes."""
    def bad(what, **kw):
        v = {"kind": "structure", "pid": pid, "program": src, "what": "%s: %s" % (pid, what)}
        v.update(kw)
        res.violation(v)
    if o.get("dirty") or o.get("panic") or o.get("has_compile_error") or not o.get("out_parse_ok"):
        bad("valid program rejected (dirty=%s panic=%s)" % (o.get("dirty"), o.get("panic")), cls="rejected")
        return
    name, items = model.sv_items(o)
    by_kind = {}
    for m in expected:
        by_kind.setdefault(m.kind, []).append(m)
    kinds = ["exec", "query", "sudo"] + (["instantiate", "migrate"] if where == "contract" else [])
    for kind in kinds:
        ms = by_kind.get(kind, [])
        if kind == "instantiate" and not ms:
            ms = [Method("instantiate", "inst", ())]
        tname = type_name_for(kind, where)
        found = [it for it in items if it.get("name") == tname and it.get("k") in ("enum", "struct")]
        if kind == "migrate" and not ms:
            if found:
                bad("MigrateMsg generated without a migrate handler")
            continue
        if len(found) != 1:
            bad("expected exactly one type %s, found %d" % (tname, len(found)))
            continue
        t = found[0]
        attrs = [norm(a) for a in t["attrs"]]
        if '#[serde(rename_all="snake_case")]' not in attrs:
            bad("type %s lacks serde(rename_all = snake_case): %s" % (tname, attrs))
        der = [" ".join(a for a in attrs if a.startswith("#[derive("))]   # one derive attribute or several
        if not der[0] or "sylvia::serde::Serialize" not in der[0] or "sylvia::serde::Deserialize" not in der[0] or "sylvia::schemars::JsonSchema" not in der[0]:
            bad("type %s lacks the serde/schemars derives: %s" % (tname, der))
        if any(a.startswith("#[serde(") and ("untagged" in a or "tag=" in a or "rename=" in a) for a in attrs):
            bad("type %s carries a representation-changing serde attribute: %s" % (tname, attrs))
        if kind in ("instantiate", "migrate"):
            if t["k"] != "struct":
                bad("%s is not a struct" % tname)
                continue
            groups = [(None, t["fields"], ms[0])]
        else:
            if t["k"] != "enum":
                bad("%s is not an enum" % tname)
                continue
            vs = [v for v in t["variants"] if v["name"] != "_Phantom"]
            for v in t["variants"]:
                # the marker variant of generic message types belongs to no method: it must be invisible on the wire
                if v["name"] == "_Phantom" and not any(norm(a) == "#[serde(skip)]" for a in v["attrs"]):
                    bad("%s has a variant `_Phantom` that is not skipped by serde: the type accepts the name `%s`, which belongs to no annotated method" % (
                        tname, serde_snake("_Phantom")), cls="extra_variant")
            if len(vs) != len(ms):
                bad("%s has %d variants for %d annotated methods" % (tname, len(vs), len(ms)))
                continue
            groups = [(v, v["fields"], m) for v, m in zip(vs, ms)]
        for (v, fields, m) in groups:
            if v is not None:
                wire = serde_snake(v["name"])
                res.outcome(("wire", m.name, wire))
                if model.in_shape(m.name) and wire != m.name:
                    bad("method `%s` gets variant `%s` which serialises as `%s`" % (m.name, v["name"], wire), cls="wire")
                if v["shape"] != "named":
                    bad("variant %s is not a struct variant" % v["name"])
                if any("serde(rename" in norm(a) or "serde(skip" in norm(a) for a in v["attrs"]):
                    bad("variant %s carries a renaming/skipping serde attribute" % v["name"])
            got = [(f["name"], norm(f["ty"])) for f in fields]
            want = [(a.name, norm(a.ty.replace("Self::", ""))) for a in m.args]
            if got != want:
                bad("fields of `%s` are %s, arguments are %s" % (m.name, got, want), cls="fields")
            for f in fields:
                if f["attrs"]:
                    bad("field %s of `%s` carries unexpected attributes %s" % (f["name"], m.name, f["attrs"]))


def run_e1(res, tier):
    progs = list(e1_programs(tier)) + list(generic_programs(tier))
    recs, meta = [], {}
    for pid, where, obj, expected in progs:
        r = model.e1_contract_record(pid, obj, want="items") if where == "contract" else model.e1_interface_record(pid, obj, want="items")
        recs.append(r)
        meta[pid] = (where, expected, r["item"])
    obs = core.e1_run(recs, "c01-" + tier)
    for o in obs:
        where, expected, src = meta[o["id"]]
        res.add(states=1, transitions=1, evaluations=1)
        res.mark_nontrivial("e1:" + o["id"])
        check_structure(res, o["id"], where, o, expected, src)
    res.parts["e1_programs"] = len(progs)
    res.sample({"e1_program": recs[len(recs) // 3]["item"]})


def name_mutants(name, others):
    b = bare(name)
    cands = [b.title().replace("_", ""), b.upper(), b + "_", "_" + b, b[:-1] if len(b) > 1 else b + "x", b + "x",
             b.replace("_", ""), b.replace("_", "__"), b.replace("1", "_1"), b.replace("_", "-"), ""]
    out = []
    for c in cands + list(others):
        if c != b and c not in out:
            out.append(c)
    return out


def run_e2(res, tier):
    cp, info = fam_basic.corpus(tier)
    cases, exp = [], []
    ctx0 = fam_basic.CONTEXTS[0]
    for pid, (c, tags, names) in sorted(info.items()):
        if pid in cp.failed:
            res.violation({"kind": "compile", "pid": pid, "what": "valid program %s does not compile: %s" % (pid, cp.failed[pid][:2]),
                           "diags": cp.failed[pid][:3]})
            continue
        hs = fam_basic.handlers(c)
        per_part_kind = {}
        for (label, disp, m) in hs:
            per_part_kind.setdefault((label, m.kind), []).append(m)
        all_names = sorted(set(bare(m.name) for _, _, m in hs))
        for (label, kind), ms in sorted(per_part_kind.items()):
            ctors = names.get((label, kind), [])
            if kind in ENUMK and len(ctors) != len(ms):
                res.violation({"kind": "ctor_count", "pid": pid, "what": "%s: %s/%s has %d constructors for %d methods" % (pid, label, kind, len(ctors), len(ms))})
                continue
            part_names = set(bare(m.name) for m in ms)
            for j, m in enumerate(ms):
                for tup in fam_basic.value_tuples(m):
                    d = fam_basic.doc(m, tup)
                    cases.append({"prog": pid, "op": "decode", "kind": kind, "part": label, "input": d})
                    exp.append(("decode", pid, label, m, d))
                    fn = ctors[j][0] if kind in ENUMK else "new"
                    cases.append({"prog": pid, "op": "ctor", "kind": kind, "part": label, "input": json.dumps(list(tup)), "extra": {"fn": fn}})
                    exp.append(("ctor", pid, label, m, d))
                if kind in ENUMK and all(model.in_shape(x.name) for x in ms):
                    tup = fam_basic.value_tuples(m)[0]
                    for mut in name_mutants(m.name, [n for n in all_names if n not in part_names]):
                        d = "{%s:%s}" % (json.dumps(mut), fam_basic.body_json(m, tup))
                        cases.append({"prog": pid, "op": "decode", "kind": kind, "part": label, "input": d})
                        exp.append(("reject", pid, label, m, d, mut in part_names))
    obs = cp.run_cases(cases)
    wire_names = {}
    for case, e, o in zip(cases, exp, obs):
        if o is None:
            continue
        res.add(states=1, transitions=1, traces=1, evaluations=1)
        kindtag, pid, label, m, d = e[:5]
        shape_ok = m.kind in ("instantiate", "migrate") or model.in_shape(m.name)
        key = (pid, label, m.kind, m.name)

        def bad(what, cls):
            res.violation({"kind": "behaviour", "cls": cls, "pid": pid, "part": label, "method": m.name, "mkind": m.kind, "doc": d,
                           "obs": o, "in_shape": shape_ok, "what": "%s %s::%s: %s" % (pid, label, m.name, what)})
        if "panic" in o:
            bad("panic: %s" % o["panic"], "panic")
            continue
        if kindtag == "decode":
            res.mark_nontrivial("dec:" + pid + label + m.name + d)
            if not shape_ok:
                # names outside the C01 shape: only record what happened (C03/C05 own them)
                res.outcome(("outshape", o.get("ok")))
                continue
            if not o.get("ok"):
                bad("model document %s is rejected: %s" % (d, o.get("err")), "model_doc_rejected")
            elif o["json"] != model.canon_json(d):
                bad("document %s re-serialises as %s" % (d, o["json"]), "roundtrip")
            res.outcome(("dec", o.get("ok")))
        elif kindtag == "ctor":
            got = o.get("json")
            if m.kind in ENUMK:
                try:
                    wire_names.setdefault((pid, label, m.kind), {})[m.name] = list(json.loads(got).keys())
                except Exception:
                    pass
            if shape_ok and got != model.canon_json(d):
                bad("constructor builds %s, model document is %s" % (got, model.canon_json(d)), "ctor")
            if not shape_ok:
                # self-consistency still applies: what the constructor builds must parse back
                pass
            res.outcome(("ctor", got == model.canon_json(d)))
        else:
            is_other_method = e[5]
            if o.get("ok") and not is_other_method:
                bad("unknown message name accepted: %s -> %s" % (d, o.get("json")), "unknown_name_accepted")
            res.outcome(("rej", o.get("ok")))
    # "accepts one message name per annotated method of its kind and no other"
    for (pid, label, kind), per in wire_names.items():
        for mname, keys in per.items():
            if len(keys) != 1:
                res.violation({"kind": "behaviour", "cls": "keys", "pid": pid, "what": "%s %s::%s serialises with top-level keys %s" % (pid, label, mname, keys)})
            elif model.in_shape(mname) and keys[0] != bare(mname):
                res.violation({"kind": "behaviour", "cls": "wire", "pid": pid, "what": "%s %s::%s serialises under `%s`" % (pid, label, mname, keys[0])})
    res.parts["e2_programs"] = len(info)
    res.parts["e2_cases"] = len(cases)
    res.sample(lambda: {"e2_case": {k: v for k, v in cases[7].items()}, "observation": obs[7]})


def run(tier):
    res = core.Result("C01", tier)
    run_e1(res, tier)
    run_e2(res, tier)
    # "generic or not": the generic corpus (message types named with their used parameters only, probes for
    # names no handler has, such as the parameter-marker variant) is shared with C15
    from . import c15
    c15.run_e2(res, tier, extended=False)
    res.cov["rule"] = ("E1: every single-handler program kind x name x argument-type list (arity <= 2 over %d types; arity 3 over a reduced set), every "
                       "name x kind x argument-name pair, every ordered pair of names as two-handler programs (same and mixed kinds), contract and "
                       "interface: one state per program, oracle on the generated type's structure.  E2: on the compiled `basic` corpus every "
                       "handler x every tuple of alphabet values: model document decodes at the part's type, re-serialises byte-equal, equals the "
                       "generated constructor's value; every derived unknown name is rejected.  non-trivial = a (program, document) pair that reaches a "
                       "generated message type" % len(TYPES))
    res.assumptions += ["names outside the N_in shape are not compared with the method name (C03/C05 cover their self-consistency)",
                        "char/f32/f64 are outside the type alphabet: cosmwasm's JSON encoder does not support them",
                        "wire-name rule (serde snake_case of the variant identifier) is validated against the really serialised value of every variant"]
    return res.finish()
