"""C19 — generated code is hygienic about crate name and user type-parameter names."""
import json
import re
import string

from . import core, model, e2, fam_basic, fam_custom, fam_reply, c15
from .model import Method, Arg, Contract, Interface

WORDS = ["Msg", "Query", "Param", "Error", "Contract", "Exec", "Data", "Payload", "App", "Api", "Storage", "Custom", "Item"]
NAMES = list(string.ascii_uppercase) + WORDS
BOUNDS = "sylvia::serde::Serialize + sylvia::serde::de::DeserializeOwned + std::fmt::Debug + Clone + PartialEq + sylvia::schemars::JsonSchema + 'static"


def named_contract(n, fw="sylvia", with_reply=True):
    b = BOUNDS.replace("sylvia::", fw + "::")
    ms = [Method("instantiate", "inst", (Arg("a", n),)),
          Method("exec", "ex", (Arg("a", "Vec<%s>" % n),)),
          Method("query", "qu", (Arg("a", "Option<%s>" % n),)),
          Method("sudo", "su", (Arg("a", n),)),
          Method("migrate", "mig", (Arg("a", n),))]
    c = Contract(methods=tuple(ms), generics=((n, ""),), where=("%s: %s" % (n, b),), concrete=("u32",), entry_points="generics<u32>",
                 new="pub const fn new() -> Self { Self { _p: std::marker::PhantomData } }")
    if with_reply:
        rms = [fam_reply.RM(fn="on_s", handlers=("x",), on="success", data="raw,opt"), fam_reply.RM(fn="alw", on="always")]
        c.methods = c.methods + tuple(fam_reply.to_method(r) for r in rms)
        c.features = "replies"
    return c


def named_contract2(n1, n2):
    """Two parameters, first used in the order (n2, n1) by exec, (n1, n2) by query, n2 only by sudo."""
    w = tuple("%s: %s" % (n, BOUNDS) for n in (n1, n2))
    ms = [Method("instantiate", "inst", (Arg("a", n2), Arg("b", n1))),
          Method("exec", "ex", (Arg("a", "Vec<%s>" % n2), Arg("b", n1))),
          Method("query", "qu", (Arg("a", n1), Arg("b", "Option<%s>" % n2))),
          Method("sudo", "su", (Arg("a", n2),))]
    return Contract(methods=tuple(ms), generics=((n1, ""), (n2, "")), where=w,
                    new="pub const fn new() -> Self { Self { _p: std::marker::PhantomData } }")


def shape_of(o, n1, n2):
    """The generic parameter lists and self types of everything generated, with the user's two names abstracted."""
    ren = lambda x: "$1" if x == n1 else "$2" if x == n2 else x
    rx = re.compile(r"(?<![A-Za-z0-9_])(%s|%s)(?![A-Za-z0-9_])" % (re.escape(n1), re.escape(n2)))
    rentext = lambda t: rx.sub(lambda m: ren(m.group(1)), str(t))
    out = []

    def walk(items, path):
        for it in items:
            k = it.get("k")
            nm = rentext(it.get("name") or it.get("self_ty") or "")
            if k in ("enum", "struct", "type", "fn", "impl", "trait"):
                out.append((path + "/" + str(k) + ":" + nm + ((" for " + rentext(it["trait"])) if it.get("trait") else ""), [ren(x) for x in (it.get("generics") or [])]))
            if k in ("impl", "trait", "mod"):
                walk(it.get("items", []), path + "/" + nm)
    walk(o.get("items", []), "")
    return out


def run_e1_pairs(res, tier):
    """Renaming the user's parameters must not change anything but the names: the parameter lists of all generated items
    for `impl<N1, N2>` equal those for the baseline names position by position (so user code naming a generated type with
    explicit arguments means the same whatever the parameters are called)."""
    base = ("Ta", "Tb")
    other = "Mm"
    pairs = [base]
    for n in all_names():
        if n != other:
            pairs += [(n, other), (other, n)]
    recs = [model.e1_contract_record("pair:%s:%s" % pr, named_contract2(*pr), want="items,mt") for pr in pairs]
    obs = core.e1_run(recs, "c19-pairs-" + tier)
    ref = None
    # names the generated code itself uses (Query, Contract, Remote ...) cannot be told apart from the user's in the dump;
    # their programs are still expanded and compiled by the other parts of this check
    own_words = set(re.findall(r"[A-Za-z_][A-Za-z0-9_]*", json.dumps(shape_of(obs[0], "\0", "\0"))))
    for pr, o, r in zip(pairs, obs, recs):
        if pr != base and (set(pr) - {other}) & own_words:
            continue
        res.add(states=1, transitions=1, evaluations=1)
        res.mark_nontrivial("e1:" + o["id"])
        if o.get("dirty") or o.get("panic"):
            res.violation({"kind": "names", "cls": "rejected", "name": pr[0] if pr[1] == other else pr[1], "pid": o["id"], "program": r["item"],
                           "what": "%s: program with parameters named %s rejected by the macro: %s" % (o["id"], pr, o.get("panic"))})
            continue
        sh = shape_of(o, *pr)
        if ref is None:
            ref = sh
            continue
        res.outcome(("pair_shape", sh == ref))
        if sh != ref:
            diff = [(a, b) for a, b in zip(ref, sh) if a != b][:3]
            res.violation({"kind": "names", "cls": "order_depends_on_names", "name": pr[0] if pr[1] == other else pr[1], "pid": o["id"], "program": r["item"], "diff": diff,
                           "what": "%s: with parameters named %s the generated items' parameter lists differ from those for %s beyond the renaming: %s" % (
                               o["id"], pr, base, diff if diff else "different number of generic items (%d vs %d)" % (len(sh), len(ref)))})


def named_interface(n, fw="sylvia"):
    if n == "Error":
        return None
    b = BOUNDS.replace("sylvia::", fw + "::")
    ms = (Method("exec", "iex", (Arg("a", "Self::" + n),)), Method("query", "iqu", (Arg("a", "Vec<Self::%s>" % n),)), Method("sudo", "isu", ()))
    return Interface(name="Ifn", module="ifn", methods=ms, assoc=((n, b),), custom="msg=Empty, query=Empty", assoc_impl=((n, "u32"),))


def walk_generic_lists(items, path, out, outer=()):
    """Collects (path, names, enclosing names) for every generic parameter list of the expansion."""
    for it in items:
        k = it.get("k")
        nm = str(it.get("name") or it.get("self_ty") or "")[:60]
        names = list(it.get("generics") or [])
        if k in ("enum", "struct", "type", "fn"):
            out.append((path + "/" + k + ":" + nm, names, list(outer)))
        if k in ("impl", "trait"):
            out.append((path + "/" + k + ":" + nm + ((" for " + it["trait"][:40]) if it.get("trait") else ""), names, list(outer)))
            assoc = [x["name"] for x in it.get("items", []) if x.get("k") == "type"]
            walk_generic_lists(it.get("items", []), path + "/" + nm, out, tuple(names))
        if k == "mod":
            walk_generic_lists(it.get("items", []), path + "/" + nm, out, ())


_GEN_NAMES = None


def generated_type_names():
    """Type-parameter and associated-type names the generated code itself introduces, read from the expansion of a
    generic reference contract / interface (multitest helpers included); the reserved prefix `Sv` is left out."""
    global _GEN_NAMES
    if _GEN_NAMES is None:
        recs = [model.e1_contract_record("g:ct", named_contract("T"), want="items,mt"),
                model.e1_entry_points_record("g:ep", named_contract("T"), want="items,mt"),
                model.e1_interface_record("g:if", named_interface("T"), want="items,mt")]
        names = set()

        def assoc(items):
            for it in items:
                if it.get("k") in ("impl", "trait"):
                    names.update(x["name"] for x in it.get("items", []) if x.get("k") == "type")
                if it.get("k") in ("mod", "impl", "trait"):
                    assoc(it.get("items", []))
        for o in core.e1_run(recs, "c19-gen"):
            lists = []
            walk_generic_lists(o.get("items", []), "", lists)
            for path, ns, outer in lists:
                names.update(ns)
            assoc(o.get("items", []))
        _GEN_NAMES = sorted(n for n in names if n[0].isupper() and not n.startswith("Sv") and n != "T")
        if len(_GEN_NAMES) < 5:
            raise core.MachineryError("implausibly few generated type names: %s" % _GEN_NAMES)
    return _GEN_NAMES


def all_names():
    return NAMES + [n for n in generated_type_names() if n not in NAMES]


def run_e1_names(res, tier):
    recs, meta = [], {}
    for n in all_names():
        c = named_contract(n)
        r = model.e1_contract_record("ct:" + n, c, want="items,mt")
        recs.append(r)
        meta[r["id"]] = (n, r["item"])
        i = named_interface(n)
        if i is not None:
            r = model.e1_interface_record("if:" + n, i, want="items,mt")
            recs.append(r)
            meta[r["id"]] = (n, r["item"])
    obs = core.e1_run(recs, "c19-" + tier)
    for o in obs:
        n, src = meta[o["id"]]
        res.add(states=1, transitions=1, evaluations=1)
        res.mark_nontrivial("e1:" + o["id"])
        if o.get("dirty") or o.get("panic"):
            res.violation({"kind": "names", "cls": "rejected", "name": n, "pid": o["id"], "program": src,
                           "what": "%s: program with parameter named `%s` rejected by the macro: %s" % (o["id"], n, o.get("panic"))})
            continue
        lists = []
        walk_generic_lists(o.get("items", []), "", lists)
        res.add(transitions=len(lists))
        for path, names, outer in lists:
            dups = sorted(set(x for x in names if names.count(x) > 1))
            shadow = sorted(set(names) & set(outer))
            res.outcome((bool(dups), bool(shadow)))
            if dups or shadow:
                res.violation({"kind": "names", "cls": "generic_name_clash", "name": n, "pid": o["id"], "program": src, "where": path,
                               "dups": dups, "shadow": shadow,
                               "what": "%s: user parameter `%s`: generic list of %s is %s (enclosing %s): duplicate %s shadowing %s" % (
                                   o["id"], n, path, names, outer, dups, shadow)})


def compile_names(res, tier):
    names = all_names() if tier == "thorough" else ["A", "C", "D", "E", "F", "Q", "T", "Msg", "Query", "Param", "Error", "Contract", "Api"] + [
        n for n in generated_type_names() if n not in NAMES]
    cp = e2.Corpus("names-" + tier)
    glue = "pub struct Subj;\nimpl vsupport::Subject for Subj { fn run(&self, c: &vsupport::Case) -> vsupport::Obs { json!({}) } }\n"
    for n in names:
        c = named_contract(n)
        i = named_interface(n)
        if i is not None:
            c.interfaces = (i,)
        text = e2.render_program("n_" + n.lower(), c, glue=glue)
        # user types with the same name must not be in scope twice: the prelude imports a few of the words
        for w in ("ContractError", "CustomMsg", "CustomQuery", "Coin", "Empty", "Reply", "Response", "StdError", "StdResult", "SubMsgResult", "Uint128", "CosmosMsg", "WasmMsg", "SubMsg", "BankMsg", "Addr", "Binary"):
            pass
        cp.add("n_" + n.lower(), text)
    cp.write()
    cp.build(check_only=True)
    for n in names:
        pid = "n_" + n.lower()
        res.add(states=1, transitions=1, traces=1, evaluations=1)
        res.mark_nontrivial("compile:" + n)
        if pid in cp.failed:
            d = cp.failed[pid]
            res.violation({"kind": "names", "cls": "does_not_compile", "name": n, "pid": pid, "diags": d[:3], "codes": sorted(set(x["code"] for x in d if x.get("code"))),
                           "what": "contract/interface whose type parameter is named `%s` does not compile: %s %s" % (n, d[0].get("code"), d[0]["message"])})
    res.parts["compiled_names"] = names


def renamed_corpus(res, tier, fw="fw", only=None):
    """Every quick program of every family (or the selection `only`), rendered with the dependency renamed to `fw`."""
    cp = e2.Corpus(("renamed-" if fw == "fw" else "renamed_%s-" % fw) + tier, fw=fw)
    progs = []
    for pid, c, tags in fam_basic.programs(tier):
        progs.append((pid, c))
    for pid, c, tags in fam_custom.programs(tier):
        progs.append((pid, c))
    for pid, rms, tags in (fam_reply.quick_programs() if tier == "quick" else fam_reply.thorough_programs()):
        progs.append((pid, fam_reply.contract_of(rms)))
    for pid, c, params, used, conc in c15.e2_programs("quick"):
        if not pid.startswith("pgx"):
            progs.append((pid, c))
    from . import c06_e2
    for pid, c in c06_e2.programs(tier):
        progs.append((pid, c))
    if only is not None:
        progs = [(pid, c) for pid, c in progs if pid in only]
        if len(progs) != len(only):
            raise core.MachineryError("renamed corpus selection %s not found (have %s)" % (sorted(only), [p for p, _ in progs]))
    # E1 names for glue (constructors / helpers) are read from the standard expansion
    recs = []
    for pid, c in progs:
        recs.append(model.e1_contract_record(pid + ":ct", c, want="items"))
        for i in c.interfaces:
            recs.append(model.e1_interface_record(pid + ":" + i.module, i, want="items"))
    obs = {o["id"]: o for o in core.e1_run(recs, "renamed-%s-%s" % (fw, tier))}
    for pid, c in progs:
        names = {}
        for k, fns in e2.e1_names(obs[pid + ":ct"]).items():
            names[("contract", k)] = fns
        for i in c.interfaces:
            for k, fns in e2.e1_names(obs[pid + ":" + i.module]).items():
                names[(i.module, k)] = fns
        c2 = c
        glue = e2.subject_impl(e2.basic_glue(c2, names))
        text = e2.render_program(pid, c2, fw=fw, glue=glue)
        text = text.replace("sylvia::cw_utils::", fw + "::cw_utils::").replace(" sylvia::serde::", " %s::serde::" % fw).replace(" sylvia::schemars::", " %s::schemars::" % fw)
        if "AliasedResult" in text:
            text = text.replace("use vsupport::{json, Value};", "use vsupport::{json, Value};\ntype AliasedResult = StdResult<u32>;")
        cp.add(pid, text)
    cp.write()
    cp.build(check_only=(tier == "quick" or only is not None))
    for pid, c in progs:
        res.add(states=1, transitions=1, traces=1, evaluations=1)
        res.mark_nontrivial("renamed:%s:%s" % (fw, pid))
        if pid in cp.failed:
            d = cp.failed[pid]
            res.violation({"kind": "rename", "cls": "does_not_compile", "pid": pid, "diags": d[:4], "codes": sorted(set(x["code"] for x in d if x.get("code"))),
                           "what": "%s: compiles under the name `sylvia` but not with the dependency renamed to `%s`: %s %s" % (pid, fw, d[0].get("code"), d[0]["message"])})
    res.parts["renamed_programs" + ("" if fw == "fw" else "_" + fw)] = len(progs)
    if tier == "thorough" and only is None:
        # "... and behaves identically": the basic family's traces on the renamed build vs the normal build
        base_cp, info = fam_basic.corpus(tier)
        cases = []
        for pid, (c, tags, names) in sorted(info.items()):
            if pid in cp.failed or pid in base_cp.failed:
                continue
            for (label, disp, m) in fam_basic.handlers(c):
                for tup in fam_basic.value_tuples(m)[:2]:
                    d = fam_basic.doc(m, tup)
                    for cx in (fam_basic.CONTEXTS[1], fam_basic.FAIL_CONTEXTS[0]):
                        for op in ("ep", "mt"):
                            cases.append({"prog": pid, "op": op, "kind": m.kind, "input": d, "ctx": cx})
        a = base_cp.run_cases(cases)
        b = cp.run_cases(cases)
        import re as _re
        for case, oa, ob in zip(cases, a, b):
            res.add(states=1, transitions=2, traces=2, evaluations=1)
            na = _re.sub(r"\w+_shard\d+::", "", json.dumps(oa, sort_keys=True))
            nb = _re.sub(r"\w+_shard\d+::", "", json.dumps(ob, sort_keys=True))
            if na != nb:
                res.violation({"kind": "rename", "cls": "behaves_differently", "pid": case["prog"], "case": case, "normal": oa, "renamed": ob,
                               "what": "%s: %s of %s answers differently when the dependency is renamed: %s vs %s" % (case["prog"], case["op"], case["input"], na[:200], nb[:200])})
        res.parts["renamed_traces"] = len(cases)
    return cp, progs


def run(tier):
    res = core.Result("C19", tier)
    run_e1_names(res, tier)
    run_e1_pairs(res, tier)
    compile_names(res, tier)
    renamed_corpus(res, tier)
    # a second import name with a digit between letters and a capital: the name must be used exactly as the manifest spells it
    renamed_corpus(res, tier, fw="Fw2x_b", only={"ptypes0", "pparts2", "rtables", "rorder_es", "pg1", "pcust0"})
    res.sample({"renamed_dependency": "fw = { package = \"sylvia\", path = \"/repo/sylvia\" }", "program": "every quick program of families basic, custom, reply, generic, override"})
    res.sample({"parameter_name_program": model.render_contract_impl(named_contract("C"))[1][:600]})
    res.cov["rule"] = ("(a) every program of the families basic, custom, reply, generic and override (all code-generation branches: every kind, interfaces, bridged "
                       "interfaces, generics, every reply arm incl. pass-through, every data mode, overrides, multitest helpers) rendered with the dependency renamed "
                       "to `fw` (no `sylvia` name in the crate) must compile, a selection of six of them also under the import name `Fw2x_b`; (b) a generic contract with replies and an interface with an associated type whose "
                       "parameter is named each of the 26 single letters and 13 conventional words: every generic-parameter list of the expansion is checked for "
                       "duplicates / shadowing (E1) and the programs are compiled (E3; quick: 13 names, thorough: all 39); the name list is closed over every type-parameter "
                       "and associated-type name the generated code itself introduces (read from the expansion; reserved prefix `Sv` excluded); (c) a two-parameter "
                       "contract whose parameters are first used in both orders, for every name paired with a fixed second name in both positions: all generated "
                       "items' parameter lists equal the baseline's up to the renaming.  non-trivial = every program")
    res.assumptions += ["E1 runs with the framework path fixed to `sylvia`; the renamed path is exercised only by the compiled corpus"]
    return res.finish()
