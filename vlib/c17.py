"""C17 — forwarded attributes land on exactly the designated item."""
import itertools
import json
import re

from . import core, model, e2, fam_basic
from .model import Method, Arg, Contract, Interface, norm

KINDS6 = ["instantiate", "exec", "query", "sudo", "migrate", "reply"]
HANDLERS = [("exec", "h0"), ("exec", "h1"), ("query", "q0"), ("sudo", "s0")]
ARGS = [("h0", "a"), ("h0", "b"), ("q0", "a")]


def marker(tag):
    return 'doc = "%s"' % tag


def build(where, kinds, handlers, args, double_kind=None, only_exec=False):
    """A contract / interface with markers on the given kinds (msg_attr), handlers (sv::attr) and arguments.
    sv::attr is written *above* sv::msg for h1 and s0 and below it for the others; with only_exec the
    query and sudo kinds have no handler at all (their message types are empty but still exist)."""
    ms = []
    apart = bool(double_kind) and double_kind.endswith("~")   # the second attribute of a kind is written after the other kinds' attributes
    if apart:
        double_kind = double_kind[:-1]
    for (k, n) in HANDLERS:
        if only_exec and k != "exec":
            continue
        a = []
        for an in ("a", "b"):
            attrs = ('#[%s]' % marker("A_%s_%s" % (n, an)),) if (n, an) in args else ()
            if attrs and double_kind and (n, an) == ("h0", "a"):
                attrs = attrs + ('#[%s]' % marker("A2_%s_%s" % (n, an)),)   # two attributes with one path on one argument
            a.append(Arg(an, "u32", attrs))
        sv = ('#[sv::attr(%s)]' % marker("V_" + n),) if n in handlers else ()
        if n in handlers and n == "h0" and double_kind:
            sv = sv + ('#[sv::attr(%s)]' % marker("V2_" + n),)
        if n in ("h1", "s0"):
            ms.append(Method(k, n, tuple(a), attrs=sv))
        else:
            ms.append(Method(k, n, tuple(a), sv_attrs=sv))
    mattrs, late = [], []
    for k in KINDS6:
        if k in kinds:
            mattrs.append("%s, %s" % (k, marker("M_" + k)))
            if double_kind == k:
                (late if apart else mattrs).append("%s, %s" % (k, marker("M2_" + k)))
    mattrs += late
    if where == "contract":
        # with attributes written apart, instantiate and migrate take no arguments (their message types have no fields)
        ia = () if apart else (Arg("a", "u32"),)
        base = [Method("instantiate", "inst", ia), Method("migrate", "mig", ia)]
        return Contract(methods=tuple(base + ms), msg_attrs=tuple(mattrs))
    return Interface(name="If", module="ifc", methods=tuple(ms), custom="msg=Empty, query=Empty",
                     attrs=tuple("#[sv::msg_attr(%s)]" % m for m in mattrs))


def collect(items, path, out):
    """[(path, attrs list)] for everything that can carry attributes in the dump."""
    for it in items:
        k = it.get("k")
        nm = str(it.get("name") or it.get("self_ty") or "")
        p = path + "/" + nm
        if "attrs" in it:
            out.append((k + ":" + p, it["attrs"]))
        for v in it.get("variants", []):
            out.append(("variant:" + p + "::" + v["name"], v["attrs"]))
            for f in v["fields"]:
                out.append(("field:" + p + "::" + v["name"] + "." + f["name"], f["attrs"]))
        for f in it.get("fields", []) if k == "struct" else []:
            out.append(("field:" + p + "." + f["name"], f["attrs"]))
        for prm in it.get("params", []) if k == "fn" else []:
            out.append(("param:" + p + "(" + norm(prm["name"]) + ")", prm.get("attrs", [])))
        if k in ("mod", "impl", "trait"):
            collect(it.get("items", []), p, out)


def variant_of(items, tname, index):
    for it in items:
        if it.get("k") == "enum" and it.get("name") == tname:
            vs = [v for v in it["variants"] if v["name"] != "_Phantom"]
            return vs[index]["name"]
    return None


def expected_locations(where, kinds, handlers, args, items, double_kind, only_exec=False):
    pre = "" if where == "contract" else "If"
    if double_kind and double_kind.endswith("~"):
        double_kind = double_kind[:-1]
    exp = {}
    for k in kinds:
        if k == "reply" or (where == "interface" and k in ("instantiate", "migrate")):
            continue
        tn = pre + model.MSG_NAME[k]
        kind_word = "struct" if k in ("instantiate", "migrate") else "enum"
        exp["M_" + k] = ["%s:/sv/%s" % (kind_word, tn)]
        if double_kind == k:
            exp["M2_" + k] = ["%s:/sv/%s" % (kind_word, tn)]
    per_kind_index = {}
    for (k, n) in HANDLERS:
        if only_exec and k != "exec":
            continue
        idx = per_kind_index.get(k, 0)
        per_kind_index[k] = idx + 1
        tn = pre + model.MSG_NAME[k]
        vn = variant_of(items, tn, idx)
        if n in handlers:
            exp["V_" + n] = ["variant:/sv/%s::%s" % (tn, vn)]
            if n == "h0" and double_kind:
                exp["V2_" + n] = ["variant:/sv/%s::%s" % (tn, vn)]
        for an in ("a", "b"):
            if (n, an) in args:
                exp["A_%s_%s" % (n, an)] = ["field:/sv/%s::%s.%s" % (tn, vn, an)]
                if double_kind and (n, an) == ("h0", "a"):
                    exp["A2_%s_%s" % (n, an)] = ["field:/sv/%s::%s.%s" % (tn, vn, an)]
    return exp


def configs(tier):
    ks = list(itertools.chain.from_iterable(itertools.combinations(KINDS6, n) for n in range(7)))
    hs = list(itertools.chain.from_iterable(itertools.combinations([h[1] for h in HANDLERS], n) for n in range(4)))
    as_ = list(itertools.chain.from_iterable(itertools.combinations(ARGS, n) for n in range(4)))
    if tier == "thorough":
        for k in ks:
            for h in hs:
                for a in as_:
                    yield (k, h, a, None)
    else:
        for k in ks:
            yield (k, (), (), None)
        for h in hs:
            for a in as_:
                yield (("exec",), h, a, None)
        for k in ks[::5]:
            for h in hs[::4]:
                yield (k, h, tuple(ARGS), None)
    for dk in KINDS6[:5]:
        yield ((dk, "exec"), ("h0",), (), dk)
        # the same kind's attributes written apart (other kinds' attributes in between); two attributes on one argument
        yield (tuple(KINDS6[:5]), ("h0",), (("h0", "a"), ("h0", "b")), dk + "~")
        yield ((dk, "query" if dk != "query" else "sudo"), ("h0", "q0"), (("h0", "a"),), dk + "~")
    # every kind subset once more on the contract whose instantiate / migrate messages have no fields
    for k in ks:
        yield (k, (), (), "exec~" if "exec" in k else "sudo~")
    # kinds without any handler still get their forwarded attributes
    for k in ks:
        yield (k, ("h0", "h1"), (("h0", "a"),), "only_exec")


def run_e1(res, tier):
    recs, meta = [], {}
    for (kinds, handlers, args, dk) in configs(tier):
        for where in ("contract", "interface"):
            only_exec = dk == "only_exec"
            if only_exec:
                dk = None
            obj = build(where, kinds, handlers, args, dk, only_exec)
            if only_exec:
                dk = "only_exec"
            pid = "%s:%s:%s:%s:%s" % (where[:2], "+".join(kinds), "+".join(handlers), "+".join("%s.%s" % x for x in args), dk)
            r = (model.e1_contract_record if where == "contract" else model.e1_interface_record)(pid, obj, want="items,mt")
            if pid in meta:
                continue
            recs.append(r)
            meta[pid] = (where, kinds, handlers, args, dk, r["item"])
    obs = core.e1_run(recs, "c17-" + tier)
    for o in obs:
        where, kinds, handlers, args, dk, src = meta[o["id"]]
        res.add(states=1, transitions=1, evaluations=1)
        if kinds or handlers or args:
            res.mark_nontrivial("e1:" + o["id"])
        if o.get("dirty") or o.get("panic") or not o.get("out_parse_ok"):
            res.violation({"kind": "attrs", "cls": "rejected", "pid": o["id"], "program": src, "what": "%s: valid program rejected: %s" % (o["id"], o.get("panic"))})
            continue
        locs = []
        collect(o.get("items", []), "", locs)
        _, items = model.sv_items(o)
        exp = expected_locations(where, kinds, handlers, args, items, None if dk == "only_exec" else dk, dk == "only_exec")
        found = {}
        order = {}
        for path, attrs in locs:
            for a in attrs:
                m = re.search(r'doc\s*=\s*"((?:M2?|V2?|A2?)_[a-z0-9_]+)"', a)
                if m:
                    found.setdefault(m.group(1), []).append(path)
                    order.setdefault(path, []).append(m.group(1))
        res.outcome((len(exp), len(found)))
        for tag in sorted(set(exp) | set(found)):
            if sorted(found.get(tag, [])) != sorted(exp.get(tag, [])):
                res.violation({"kind": "attrs", "cls": "placement", "pid": o["id"], "program": src, "marker": tag, "found": found.get(tag, []), "expected": exp.get(tag, []),
                               "what": "%s: marker %s found on %s, expected on %s" % (o["id"], tag, found.get(tag, []), exp.get(tag, []))})
        for path, tags in order.items():
            for first, second in (("M_", "M2_"), ("V_", "V2_"), ("A_", "A2_")):
                a = [t for t in tags if t.startswith(first)]
                b = [t for t in tags if t.startswith(second)]
                if a and b and tags.index(a[0]) > tags.index(b[0]):
                    res.violation({"kind": "attrs", "cls": "order", "pid": o["id"], "program": src, "what": "%s: forwarded attributes on %s are not in written order: %s" % (o["id"], path, tags)})
    res.parts["e1_programs"] = len(recs)
    res.sample({"e1_program": recs[-1]["item"]})


# ---------------------------------------------------------------------------------------------
# E2: semantically active attributes

def e2_programs(tier):
    out = []
    defaults_sets = [(), (("h0", "b"),), (("h0", "a"),), (("h0", "a"), ("h1", "b")), (("q0", "a"), ("h1", "a"), ("h1", "b"))]
    alias_sets = [(), ("h0",), ("h1", "q0"), ("q0",), ("h0", "h1", "q0", "s0")]
    ord_sets = [(), ("exec",), ("query", "sudo"), ("exec", "instantiate", "migrate"), ("exec", "query", "sudo", "instantiate", "migrate")]
    # kinds whose message type is given the container attribute serde(deny_unknown_fields)
    deny_sets = [(), ("exec",), ("query", "sudo"), ("sudo",), ("exec", "query", "sudo")]
    combos = list(zip(defaults_sets, alias_sets, ord_sets, deny_sets))
    if tier == "thorough":
        combos = [(d, a, o, dn) for d in defaults_sets for a in alias_sets for o in ord_sets[:3] for dn in (deny_sets[0], deny_sets[1], deny_sets[4])]
    for j, (defs, aliases, ords, denies) in enumerate(combos):
        for where in ("contract", "interface"):
            ms = []
            for (k, n) in HANDLERS + [("exec", "h1x")][:0]:
                args = tuple(Arg(an, "u32", ("#[serde(default)]",) if (n, an) in defs else ()) for an in ("a", "b"))
                sv = ('#[sv::attr(serde(alias = "al_%s"))]' % n,) if n in aliases else ()
                # written above sv::msg for h1 / q0, below it for the others
                ms.append(Method(k, n, args, attrs=sv) if n in ("h1", "q0") else Method(k, n, args, sv_attrs=sv))
            # a derive list that mentions traits whose names are contained in those the framework derives itself (Eq in PartialEq)
            mattrs = tuple("%s, derive(PartialOrd, Eq, Hash)" % k for k in ords if not (where == "interface" and k in ("instantiate", "migrate")))
            mattrs += tuple("%s, serde(deny_unknown_fields)" % k for k in denies)
            if where == "contract":
                c = Contract(methods=tuple([Method("instantiate", "inst", (Arg("a", "u32"),)), Method("migrate", "mig", (Arg("a", "u32"),))] + ms),
                             msg_attrs=mattrs, entry_points="")
            else:
                i = Interface(name="If0", module="if0", methods=tuple(ms), custom="msg=Empty, query=Empty", attrs=tuple("#[sv::msg_attr(%s)]" % m for m in mattrs))
                c = Contract(methods=(Method("instantiate", "inst", (Arg("a", "u32"),)),), interfaces=(i,), entry_points="")
            out.append(("pa%s%d" % (where[0], j), c, where, defs, aliases, ords, denies))
    return out


def run_e2(res, tier):
    progs = e2_programs(tier)
    cp = e2.Corpus("attrs-" + tier)
    for pid, c, where, defs, aliases, ords, denies in progs:
        arms = e2.basic_glue(c, None)
        asserts = []
        for k in ords:
            if where == "interface" and k in ("instantiate", "migrate"):
                continue
            ty = "sv::%s" % model.MSG_NAME[k] if where == "contract" else "if0::sv::%s" % model.MSG_NAME[k]
            asserts.append("fn _ord_%s(x: &%s, y: &%s) -> Option<std::cmp::Ordering> { x.partial_cmp(y) }" % (k, ty, ty))
            asserts.append("fn _eq_hash_%s() { fn need<T: Eq + std::hash::Hash>() {} need::<%s>(); }" % (k, ty))
        cp.add(pid, e2.render_program(pid, c, glue=e2.subject_impl(arms) + "\n" + "\n".join(asserts) + "\n"))
    cp.write()
    cp.build()
    cases, exp = [], []
    for pid, c, where, defs, aliases, ords, denies in progs:
        if pid in cp.failed:
            res.violation({"kind": "compile", "cls": "attr_program_rejected", "pid": pid, "diags": cp.failed[pid][:3],
                           "what": "%s: forwarded attributes (defaults %s, aliases %s, PartialOrd on %s) do not compile: %s" % (pid, defs, aliases, ords, cp.failed[pid][0]["message"])})
            continue
        part = "contract" if where == "contract" else "if0"
        for (k, n) in HANDLERS:
            docs = {
                "full": '{"%s":{"a":1,"b":2}}' % n,
                "no_a": '{"%s":{"b":2}}' % n,
                "no_b": '{"%s":{"a":1}}' % n,
                "none": '{"%s":{}}' % n,
                "alias": '{"al_%s":{"a":1,"b":2}}' % n,
                "extra": '{"%s":{"a":1,"b":2,"zz":9}}' % n,
            }
            for other in [x[1] for x in HANDLERS if x[0] == k and x[1] != n]:
                docs["alias_of_" + other] = '{"al_%s":{"a":1,"b":2}}' % other
            for label, d in docs.items():
                cases.append({"prog": pid, "op": "decode", "kind": k, "part": part, "input": d})
                exp.append((pid, k, n, label, d, defs, aliases, denies))
    obs = cp.run_cases(cases)
    for case, e, o in zip(cases, exp, obs):
        pid, k, n, label, d, defs, aliases, denies = e
        res.add(states=1, transitions=1, traces=1, evaluations=1)
        res.mark_nontrivial("e2:%s|%s" % (pid, d))
        if label == "extra":
            want_ok = k not in denies
            want_json = '{"%s":{"a":1,"b":2}}' % n
        elif label.startswith("alias_of_"):
            other = label[len("alias_of_"):]
            want_ok = other in aliases
            want_json = '{"%s":{"a":1,"b":2}}' % other
        elif label == "alias":
            want_ok = n in aliases
            want_json = '{"%s":{"a":1,"b":2}}' % n
        else:
            miss = {"full": [], "no_a": ["a"], "no_b": ["b"], "none": ["a", "b"]}[label]
            want_ok = all((n, f) in defs for f in miss)
            vals = {"a": 1, "b": 2}
            for f in miss:
                vals[f] = 0
            want_json = '{"%s":{"a":%d,"b":%d}}' % (n, vals["a"], vals["b"])
        res.outcome((label, want_ok, o.get("ok")))
        if bool(o.get("ok")) != want_ok:
            res.violation({"kind": "attrs_e2", "cls": "effect", "pid": pid, "doc": d, "obs": o, "defaults": defs, "aliases": aliases,
                           "what": "%s: %s is %s; with defaults on %s, aliases on %s and deny_unknown_fields on %s it must be %s" % (
                               pid, d, "accepted" if o.get("ok") else "rejected", defs, aliases, denies, "accepted" if want_ok else "rejected")})
        elif want_ok and o.get("json") != want_json:
            res.violation({"kind": "attrs_e2", "cls": "value", "pid": pid, "doc": d, "obs": o,
                           "what": "%s: %s decodes to %s, expected %s" % (pid, d, o.get("json"), want_json)})
    res.parts["e2_programs"] = len(progs)
    res.parts["e2_cases"] = len(cases)


def run(tier):
    res = core.Result("C17", tier)
    run_e1(res, tier)
    run_e2(res, tier)
    res.cov["rule"] = ("E1: unique marker attributes forwarded with sv::msg_attr to every subset of the six kinds, with sv::attr from every subset of 4 handlers "
                       "(3 kinds) and written on every subset of 3 arguments (quick: the three dimensions separately plus fixed cross sections; thorough: the full "
                       "product 64 x 15 x 8), contract and interface, plus two attributes for one kind/handler (order): every attribute-bearing position of "
                       "the whole expansion (types, variants, fields, impls, fns, parameters, multitest helpers) is scanned; each marker must sit exactly on its "
                       "designated item.  E2: serde(default) on argument subsets, serde(alias) from handler subsets, derive(PartialOrd, Eq, Hash) and the container attribute serde(deny_unknown_fields) on kind subsets, "
                       "compiled: omitted-field / alias documents accepted exactly where designated, partial_cmp usable on designated kinds. "
                       "non-trivial = program with at least one forwarded attribute / every E2 document")
    res.assumptions += ["the negative side of PartialOrd (not derivable on undesignated kinds) is covered by the E1 scan only"]
    return res.finish()
