"""E2 — compiled-corpus trace replayer: renders corpus workspaces, builds them against /repo's
working tree, runs model traces (cases) on the real generated code, returns observations."""
import json
import os
import re
import shutil

from . import core, model
from .model import ENUM_KINDS

SYLVIA_FEATURES = '["mt", "iterator", "stargate", "cosmwasm_1_1", "cosmwasm_1_2", "cosmwasm_1_3", "cosmwasm_1_4", "cosmwasm_2_0"]'
VSUPPORT = core.materialize(os.path.join(core.VERIF, "support", "vsupport"), "vsupport")

PRELUDE = """#![allow(unused, dead_code, deprecated, non_snake_case, non_camel_case_types, clippy::all)]
use {fw}::cw_std::{{self, Addr, Binary, Coin, Empty, Reply, Response, StdError, StdResult, SubMsgResult, Uint128, CosmosMsg, WasmMsg, SubMsg, BankMsg}};
use {fw}::ctx::{{ExecCtx, InstantiateCtx, MigrateCtx, QueryCtx, ReplyCtx, SudoCtx}};
use {fw}::types::{{ContractApi, CustomMsg, CustomQuery}};
use vsupport::types::{{ContractError, En, Inner, MyMsg, MyQuery, EchoResp, OtherResp}};
use vsupport::{{json, Value}};
"""


def hexs(b):
    if isinstance(b, str):
        b = b.encode()
    return b.hex()


# -------------------------------------------------------------------------------------------
# program rendering

def contract_concrete_ty(c):
    if c.generics:
        assert c.concrete and len(c.concrete) == len(c.generics), "generic corpus contract needs concrete types"
        return "%s<%s>" % (c.name, ", ".join(c.concrete))
    return c.name


def contract_turbofish(c):
    if c.generics:
        return "%s::<%s>" % (c.name, ", ".join(c.concrete))
    return c.name


def render_iface_impl(c, i, style):
    cm, cq = model.custom_parts(c)
    lines = ["type Error = %s;" % (c.error or "StdError")]
    if i.exec_c:
        lines.append("type ExecC = %s;" % (cm or "Empty"))
    if i.query_c:
        lines.append("type QueryC = %s;" % (cq or "Empty"))
    for (n, t) in i.assoc_impl:
        lines.append("type %s = %s;" % (n, t))
    for m in i.methods:
        lines.append(model.render_impl_method(m, i.name, i.body_style or style, i))
    gens = ""
    if c.generics:
        gens = "<%s>" % ", ".join((n + (": " + b if b else "")) for n, b in c.generics)
    where = (" where " + ", ".join(c.where)) if c.where else ""
    return "impl%s %s::%s for %s%s {\n    %s\n}" % (gens, i.module, i.name, model.contract_self_ty(c), where, "\n    ".join(lines))


def render_program(pid, c, fw="sylvia", style="echo", glue=""):
    """Full module text for one corpus program (interfaces, contract, impls, glue)."""
    out = [PRELUDE.format(fw=fw)]
    for i in c.interfaces:
        attrs, item = model.render_interface(i, style)
        out.append("pub mod %s {\n    use super::*;\n    #[%s::interface]\n    %s\n    %s\n}" % (
            i.module, fw, "\n    ".join(attrs), item.replace("\n", "\n    ")))
    if c.generics:
        out.append("pub struct %s<%s> { %s }" % (c.name, ", ".join(n for n, _ in c.generics),
                                               c.fields or "_p: std::marker::PhantomData<(%s,)>" % ", ".join(n for n, _ in c.generics)))
    else:
        out.append("pub struct %s;" % c.name)
    attrs, item = model.render_contract_impl(c, style)
    macro_lines = []
    if c.entry_points is not None:
        macro_lines.append("#[%s::entry_points%s]" % (fw, ("(" + c.entry_points + ")") if c.entry_points else ""))
    macro_lines.append("#[%s::contract]" % fw)
    out.append("\n".join(macro_lines + attrs + [item]))
    for i in c.interfaces:
        out.append(render_iface_impl(c, i, style))
    out.append(glue)
    return "\n\n".join(out) + "\n"


# -------------------------------------------------------------------------------------------
# glue (impl vsupport::Subject) for the basic operations

def parts_of(c):
    """[(part label, kind -> type path)] for the contract and its interfaces, in wrapper order."""
    ct = contract_concrete_ty(c)
    parts = []
    for i in c.interfaces:
        parts.append((i.module, {k: "<%s as %s::sv::InterfaceMessagesApi>::%s" % (ct, i.module, k.capitalize()) for k in ENUM_KINDS}))
    parts.append(("contract", {k: "<%s as ContractApi>::%s" % (ct, k.capitalize()) for k in ENUM_KINDS}))
    return parts


def has_kind(c, kind):
    return any(m.kind == kind for m in c.methods)


def basic_glue(c, e1names=None, with_ep=True, with_mt=True):
    """Glue for ops: decode / dispatch / ep / mt / tables / ctor.
    e1names: {(part, kind): [(ctor_fn, nargs)]} read from the E1 observation of the program."""
    ct = contract_concrete_ty(c)
    tf = contract_turbofish(c)
    cm, cq = model.custom_parts(c)
    cmsg, cqry = cm or "Empty", cq or "Empty"
    err = c.error or "StdError"
    arms = []
    wrappers = {k: "<%s as ContractApi>::Contract%s" % (ct, k.capitalize()) for k in ENUM_KINDS}
    structs = {"instantiate": "<%s as ContractApi>::Instantiate" % ct}
    if has_kind(c, "migrate"):
        structs["migrate"] = "<%s as ContractApi>::Migrate" % ct
    # decode
    dec = []
    for k in ENUM_KINDS:
        dec.append('("%s", "wrapper") => vsupport::decode::<%s>(&c.input),' % (k, wrappers[k]))
        for (label, tys) in parts_of(c):
            dec.append('("%s", "%s") => vsupport::decode::<%s>(&c.input),' % (k, label, tys[k]))
    for k, t in structs.items():
        dec.append('("%s", "contract") => vsupport::decode::<%s>(&c.input),' % (k, t))
    arms.append('"decode" => match (c.kind.as_str(), c.part.as_str()) {\n            %s\n            _ => json!({"machinery": "bad decode target"}),\n        },' % "\n            ".join(dec))

    def ctxv(k):
        if k in ("instantiate", "exec"):
            return "(cx.deps.as_mut(), cx.env.clone(), cx.info.clone())"
        if k == "query":
            return "(cx.deps.as_ref(), cx.env.clone())"
        return "(cx.deps.as_mut(), cx.env.clone())"

    def obsf(k):
        return "vsupport::obs_query" if k == "query" else "vsupport::obs_mut"

    # direct dispatch of a decoded message (wrapper or contract's own message; interface messages are
    # dispatched through the wrapper only, as user code does)
    disp = []
    for k in ENUM_KINDS:
        for (label, ty) in [("wrapper", wrappers[k]), ("contract", "<%s as ContractApi>::%s" % (ct, k.capitalize()))]:
            disp.append('("%s", "%s") => match cw_std::from_json::<%s>(&c.input) {\n'
                        '                Err(e) => vsupport::decode_err(e),\n'
                        '                Ok(m) => { let r = m.dispatch(&%s::new(), %s); let st = cx.storage_dump(); %s(r, st) }\n'
                        '            },' % (k, label, ty, tf, ctxv(k), obsf(k)))
    for k, t in structs.items():
        disp.append('("%s", "contract") => match cw_std::from_json::<%s>(&c.input) {\n'
                    '                Err(e) => vsupport::decode_err(e),\n'
                    '                Ok(m) => { let r = m.dispatch(&%s::new(), %s); let st = cx.storage_dump(); vsupport::obs_mut(r, st) }\n'
                    '            },' % (k, t, tf, ctxv(k)))
    arms.append('"dispatch" => { let mut cx = vsupport::Cx::<%s>::new(&c.ctx); match (c.kind.as_str(), c.part.as_str()) {\n            %s\n            _ => json!({"machinery": "bad dispatch target"}),\n        } },' % (cqry, "\n            ".join(disp)))
    # entry points
    if with_ep and c.entry_points is not None:
        eps = []
        over = set(o.split("=")[0].strip() for o in c.overrides)
        for k in ["instantiate", "exec", "query", "sudo", "migrate"]:
            if k in over or (k == "migrate" and not has_kind(c, "migrate")):
                continue
            ty = wrappers[k] if k in ENUM_KINDS else structs[k]
            call = {"instantiate": "entry_points::instantiate(cx.deps.as_mut(), cx.env.clone(), cx.info.clone(), m)",
                    "exec": "entry_points::execute(cx.deps.as_mut(), cx.env.clone(), cx.info.clone(), m)",
                    "query": "entry_points::query(cx.deps.as_ref(), cx.env.clone(), m)",
                    "sudo": "entry_points::sudo(cx.deps.as_mut(), cx.env.clone(), m)",
                    "migrate": "entry_points::migrate(cx.deps.as_mut(), cx.env.clone(), m)"}[k]
            eps.append('"%s" => match cw_std::from_json::<%s>(&c.input) {\n'
                       '                Err(e) => vsupport::decode_err(e),\n'
                       '                Ok(m) => { let r = %s; let st = cx.storage_dump(); %s(r, st) }\n'
                       '            },' % (k, ty, call, obsf(k)))
        if has_kind(c, "reply") and "reply" not in over:
            eps.append('"reply" => match cw_std::from_json::<Reply>(&c.input) {\n'
                       '                Err(e) => vsupport::decode_err(e),\n'
                       '                Ok(m) => { let r = entry_points::reply(cx.deps.as_mut(), cx.env.clone(), m); let st = cx.storage_dump(); vsupport::obs_mut(r, st) }\n'
                       '            },')
        arms.append('"ep" => { let mut cx = vsupport::Cx::<%s>::new(&c.ctx); match c.kind.as_str() {\n            %s\n            _ => json!({"absent": true}),\n        } },' % (cqry, "\n            ".join(eps)))
    if with_mt:
        mts = []
        T = "<%s as vsupport::sylvia::cw_multi_test::Contract<%s, %s>>" % (ct, cmsg, cqry)
        for k, call in [("instantiate", "%s::instantiate(&ctr, cx.deps.as_mut(), cx.env.clone(), cx.info.clone(), c.input.clone())"),
                        ("exec", "%s::execute(&ctr, cx.deps.as_mut(), cx.env.clone(), cx.info.clone(), c.input.clone())"),
                        ("sudo", "%s::sudo(&ctr, cx.deps.as_mut(), cx.env.clone(), c.input.clone())"),
                        ("migrate", "%s::migrate(&ctr, cx.deps.as_mut(), cx.env.clone(), c.input.clone())")]:
            mts.append('"%s" => { let r = %s; let st = cx.storage_dump(); vsupport::obs_mut_anyhow(r, st) },' % (k, call % T))
        mts.append('"query" => { let r = %s::query(&ctr, cx.deps.as_ref(), cx.env.clone(), c.input.clone()); let st = cx.storage_dump(); vsupport::obs_query_anyhow(r, st) },' % T)
        mts.append('"reply" => match cw_std::from_json::<Reply>(&c.input) {\n'
                   '                Err(e) => vsupport::decode_err(e),\n'
                   '                Ok(m) => { let r = %s::reply(&ctr, cx.deps.as_mut(), cx.env.clone(), m); let st = cx.storage_dump(); vsupport::obs_mut_anyhow(r, st) }\n'
                   '            },' % T)
        arms.append('"mt" => { let mut cx = vsupport::Cx::<%s>::new(&c.ctx); let ctr = %s::new(); match c.kind.as_str() {\n            %s\n            _ => json!({"machinery": "bad mt kind"}),\n        } },' % (cqry, tf, "\n            ".join(mts)))
    # name tables
    tabs = []
    for k in ENUM_KINDS:
        fn = model.EP_NAME[k] + "_messages"
        tabs.append('("%s", "contract") => json!(sv::%s().to_vec()),' % (k, fn))
        for i in c.interfaces:
            tabs.append('("%s", "%s") => json!(%s::sv::%s().to_vec()),' % (k, i.module, i.module, fn))
    arms.append('"tables" => match (c.kind.as_str(), c.part.as_str()) {\n            %s\n            _ => json!({"machinery": "bad table"}),\n        },' % "\n            ".join(tabs))
    # constructors
    if e1names:
        ctors = []
        for (label, tys) in parts_of(c):
            for k in ENUM_KINDS:
                for (fn, nargs) in e1names.get((label, k), []):
                    args = ", ".join("vsupport::arg(&a[%d])" % j for j in range(nargs))
                    ctors.append('("%s", "%s", "%s") => { let m = <%s>::%s(%s); json!({"json": vsupport::js(&m)}) },' % (k, label, fn, tys[k], fn, args))
        for k, t in structs.items():
            n = e1names.get(("contract", k))
            if n is not None:
                args = ", ".join("vsupport::arg(&a[%d])" % j for j in range(n[0][1]))
                ctors.append('("%s", "contract", "new") => { let m = <%s>::new(%s); json!({"json": vsupport::js(&m)}) },' % (k, t, args))
        arms.append('"ctor" => { let a: Vec<Value> = vsupport::args_of(&c.input); match (c.kind.as_str(), c.part.as_str(), c.extra["fn"].as_str().unwrap_or("")) {\n            %s\n            _ => json!({"machinery": "bad ctor"}),\n        } },' % "\n            ".join(ctors))
    # remote helpers (C10): executor / querier helper traits, names read from E1
    if e1names and with_ep and c.entry_points is not None and not any(o.split("=")[0].strip() in ("query", "exec") for o in c.overrides):
        rex, rq = [], []
        dyn_assoc = lambda i: "".join(", %s = %s" % (n, t) for n, t in ([("ExecC", cmsg)] if i.exec_c else []) + ([("QueryC", cqry)] if i.query_c else []) + list(i.assoc_impl))
        for (label, tys) in parts_of(c):
            iface = next((i for i in c.interfaces if i.module == label), None)
            if iface is None:
                forms = [("concrete", ct, "sv")]
            else:
                forms = [("dyn", "dyn %s::%s<Error = %s%s>" % (label, iface.name, err, dyn_assoc(iface)), label + "::sv"),
                         ("impl", ct, label + "::sv")]
            for via, rty, path in forms:
                for (fn, nargs) in e1names.get((label, "executor"), []):
                    args = ", ".join("vsupport::arg(&a[%d])" % j for j in range(nargs))
                    rex.append('("%s", "%s", "%s") => { use %s::Executor; let r = if borrowed { %s::types::Remote::<%s>::borrowed(&addr) } else { %s::types::Remote::<%s>::new(addr.clone()) }; '
                               'let mut b = r.executor(); for f in fseq { b = b.with_funds(f); } vsupport::obs_wasm(b.%s(%s).map(|x| x.build())) },' % (
                                   label, via, fn, path, "vsupport::sylvia", rty, "vsupport::sylvia", rty, fn, args))
                for (fn, nargs) in e1names.get((label, "querier"), []):
                    args = ", ".join("vsupport::arg(&a[%d])" % j for j in range(nargs))
                    # the caller's chain may use another custom query type than the target (smart queries do not depend on it):
                    # extra.foreign selects a querier typed with a custom query type the target does not use
                    other_q = "MyQuery" if cqry == "Empty" else "Empty"
                    inner = ('{ let ctx2 = c.ctx.clone(); vsupport::with_recording_querier::<%%s, _, _>('
                             'move |m| { let cx = vsupport::Cx::<%s>::new(&ctx2); match cw_std::from_json::<%s>(m) { Err(e) => Err(format!("target rejects query body: {}", e)), '
                             'Ok(q) => entry_points::query(cx.deps.as_ref(), cx.env.clone(), q).map_err(|e| e.to_string()) } }, '
                             '|qw| { let r = if borrowed { %s::types::Remote::<%s>::borrowed(&addr) } else { %s::types::Remote::<%s>::new(addr.clone()) }; let bq = r.querier(qw); vsupport::jres(bq.%s(%s)) }) }' % (
                                 cqry, wrappers["query"], "vsupport::sylvia", rty, "vsupport::sylvia", rty, fn, args))
                    rq.append('("%s", "%s", "%s") => { use %s::Querier; if c.extra["foreign"].as_bool().unwrap_or(false) %s else %s },' % (
                        label, via, fn, path, inner % other_q, inner % cqry))
        pre = ('let a: Vec<Value> = vsupport::args_of(&c.input); let addr = Addr::unchecked(c.ctx["addr"].as_str().unwrap_or("target")); '
               'let borrowed = c.extra["borrowed"].as_bool().unwrap_or(false); let fseq = vsupport::funds_seq(&c.ctx); '
               'match (c.part.as_str(), c.extra["via"].as_str().unwrap_or(""), c.extra["fn"].as_str().unwrap_or(""))')
        ib = e1names.get(("contract", "inst_builder"))
        if ib and not c.generics:
            tr, fn = ib[0][0].split("::")
            args = "".join(", vsupport::arg(&a[%d])" % j for j in range(ib[0][1]))
            arms.append('"inst_builder" => { let a: Vec<Value> = vsupport::args_of(&c.input); let code_id = c.extra["code_id"].as_u64().unwrap_or(1); '
                        'vsupport::obs_inst_builder(<vsupport::sylvia::builder::instantiate::InstantiateBuilder as sv::%s>::%s(code_id%s), &c.extra) },' % (tr, fn, args))
        arms.append('"remote_exec" => { %s {\n            %s\n            _ => json!({"machinery": "bad remote_exec"}),\n        } },' % (pre, "\n            ".join(rex)))
        arms.append('"remote_query" => { %s {\n            %s\n            _ => json!({"machinery": "bad remote_query"}),\n        } },' % (pre, "\n            ".join(rq)))
    return arms


def subject_impl(arms):
    return ("pub struct Subj;\nimpl vsupport::Subject for Subj {\n    fn run(&self, c: &vsupport::Case) -> vsupport::Obs {\n"
            "        match c.op.as_str() {\n        %s\n        _ => json!({\"machinery\": \"unknown op\"}),\n        }\n    }\n}\n" % "\n        ".join(arms))


def e1_names(obs):
    """{kind: [(ctor fn, nargs)], "executor": [fn], "querier": [fn]} from an E1 observation."""
    out = {}
    name, items = model.sv_items(obs)
    for it in items:
        if it.get("k") == "trait" and it.get("name") in ("Executor", "Querier"):
            out[it["name"].lower()] = [(f["name"], len(f["params"]) - 1) for f in it["items"] if f.get("k") == "fn"]
        if it.get("k") == "trait" and str(it.get("name", "")).endswith("InstantiateBuilder"):
            out["inst_builder"] = [(it["name"] + "::" + f["name"], len(f["params"]) - 1) for f in it["items"] if f.get("k") == "fn"]
    for it in items:
        if it.get("k") == "impl" and it.get("trait") is None:
            st = model.norm(it["self_ty"]).split("<")[0]
            for k, mn in model.MSG_NAME.items():
                if st == mn or (st.endswith(mn) and k in ENUM_KINDS and not st.startswith("Contract")):
                    # a type may have several inherent impl blocks: constructors are collected over all of them, in order
                    fns = [(f["name"], len(f["params"])) for f in it["items"] if f.get("k") == "fn" and f["name"] != "dispatch" and not f["name"].endswith("_messages")]
                    out.setdefault(k, []).extend(fns)
    return out


# -------------------------------------------------------------------------------------------
# corpus build

class Corpus:
    def __init__(self, name, fw="sylvia", features="full"):
        """features: "full" (every optional feature of the framework on) or "min" (only mt + iterator); the two
        feature sets are built in separate target directories."""
        self.name = name
        self.fw = fw
        self.features = features
        self.root = os.path.join(core.BUILD, "corpus", name)
        self.programs = []     # (pid, source text)
        self.shards = {}       # pid -> shard index
        self.bins = {}
        self.failed = {}       # pid -> [diagnostics]

    def add(self, pid, text):
        assert re.match(r"^[a-z][a-z0-9_]*$", pid), pid
        self.programs.append((pid, text))

    def write(self, nshards=16):
        n = max(1, min(nshards, len(self.programs)))
        os.makedirs(self.root, exist_ok=True)
        # round-robin keeps shard sizes even
        groups = [[] for _ in range(n)]
        for idx, (pid, text) in enumerate(self.programs):
            groups[idx % n].append((pid, text))
            self.shards[pid] = idx % n
        members = []
        keep = set()
        for si, grp in enumerate(groups):
            sname = "shard%02d" % si
            members.append(sname)
            keep.add(sname)
            d = os.path.join(self.root, sname)
            os.makedirs(os.path.join(d, "src"), exist_ok=True)
            dep = '%s = { %spath = "%s", features = %s }' % (
                self.fw, 'package = "sylvia", ' if self.fw != "sylvia" else "", os.path.join(core.REPO, "sylvia"),
                SYLVIA_FEATURES if self.features == "full" else '["mt", "iterator"]')
            write_if_changed(os.path.join(d, "Cargo.toml"),
                             '[package]\nname = "%s_%s"\nversion = "0.0.0"\nedition = "2021"\npublish = false\n\n[[bin]]\nname = "%s_%s"\npath = "src/main.rs"\n\n[dependencies]\n%s\nvsupport = { path = "%s"%s }\n' % (
                                 self.name.replace("-", "_"), sname, self.name.replace("-", "_"), sname, dep, VSUPPORT,
                                 "" if self.features == "full" else ", default-features = false"))
            main = ["#![allow(unused, dead_code, deprecated, clippy::all)]"]
            want_files = set(["main.rs"])
            for pid, text in grp:
                main.append("mod %s;" % pid)
                write_if_changed(os.path.join(d, "src", pid + ".rs"), text)
                want_files.add(pid + ".rs")
            main.append("fn main() {\n    vsupport::main_loop(vec![\n%s\n    ]);\n}" % "\n".join(
                '        ("%s", Box::new(%s::Subj)),' % (pid, pid) for pid, _ in grp))
            write_if_changed(os.path.join(d, "src", "main.rs"), "\n".join(main) + "\n")
            for f in os.listdir(os.path.join(d, "src")):
                if f not in want_files:
                    os.remove(os.path.join(d, "src", f))
        for f in os.listdir(self.root):
            if f.startswith("shard") and f not in keep:
                shutil.rmtree(os.path.join(self.root, f))
        write_if_changed(os.path.join(self.root, "Cargo.toml"),
                         '[workspace]\nmembers = [%s]\nresolver = "2"\n\n[profile.dev]\ndebug = false\nincremental = false\n\n[profile.dev.package."*"]\nopt-level = 1\n' % ", ".join('"%s"' % m for m in members))
        lock = os.path.join(self.root, "Cargo.lock")
        if not os.path.exists(lock):
            shutil.copy(os.path.join(core.REPO, "Cargo.lock"), lock)
        self.members = members

    def build(self, check_only=False):
        """Builds all shards.  Programs that do not compile are attributed through diagnostic spans
        (self.failed), removed, and the rest is rebuilt.  Returns build wall time."""
        tgt = os.path.join(core.BUILD, "target-e2" if self.features == "full" else "target-e2min")
        env = core.cargo_env({"CARGO_TARGET_DIR": tgt})
        total = 0.0
        for attempt in range(4):
            with core.BuildLock("e2"):
                cmd = ["cargo", "check" if check_only else "build", "--offline", "--workspace", "--message-format=json", "--keep-going"]
                p, dt = core.run(cmd, cwd=self.root, env=env)
            total += dt
            bad = {}
            other_errors = []
            for line in p.stdout.splitlines():
                try:
                    m = json.loads(line)
                except Exception:
                    continue
                if m.get("reason") == "compiler-artifact" and m.get("executable"):
                    nm = m["target"]["name"]
                    self.bins[nm] = m["executable"]
                if m.get("reason") == "compiler-message" and m["message"].get("level") == "error":
                    msg = m["message"]
                    pid = attribute(msg)
                    if pid:
                        bad.setdefault(pid, []).append(diag_summary(msg))
                    else:
                        other_errors.append(msg.get("rendered", "")[:2000])
            if p.returncode == 0:
                core.log("[e2] corpus %s: %d programs built in %.1fs (%d rejected by rustc)" % (self.name, len(self.programs), total, len(self.failed)))
                return total
            if not bad:
                raise core.MachineryError("corpus %s does not build and no program can be blamed:\n%s\n%s" % (
                    self.name, "\n".join(other_errors)[-5000:], p.stderr[-3000:]))
            for pid, diags in bad.items():
                self.failed[pid] = diags
            core.log("[e2] corpus %s: %d program(s) fail to compile: %s" % (self.name, len(bad), sorted(bad)[:8]))
            self.programs = [(pid, t) for (pid, t) in self.programs if pid not in self.failed]
            self.bins = {}
            n = len(self.members)
            self.write(n)
        raise core.MachineryError("corpus %s: still failing after removing blamed programs" % self.name)

    def run_cases(self, cases, threads_per_shard=2, timeout=1800):
        """cases: list of dicts with prog/op/kind/part/input(bytes|str)/ctx/extra.  Returns list of
        observations aligned with cases (None for programs that failed to compile)."""
        import subprocess
        per = {}
        for n, c in enumerate(cases):
            if c["prog"] in self.failed:
                continue
            si = self.shards[c["prog"]]
            rec = {"n": n, "prog": c["prog"], "op": c["op"], "kind": c.get("kind", ""), "part": c.get("part", ""),
                   "input": hexs(c.get("input", b"")), "ctx": c.get("ctx"), "extra": c.get("extra")}
            per.setdefault(si, []).append(rec)
        procs = []
        rundir = os.path.join(self.root, "run")
        os.makedirs(rundir, exist_ok=True)
        for si, recs in per.items():
            cf, of = os.path.join(rundir, "cases%02d.jsonl" % si), os.path.join(rundir, "obs%02d.jsonl" % si)
            with open(cf, "w") as f:
                for r in recs:
                    f.write(json.dumps(r) + "\n")
            if os.path.exists(of):
                os.remove(of)
            exe = self.bins.get("%s_shard%02d" % (self.name.replace("-", "_"), si))
            if exe is None:
                raise core.MachineryError("corpus %s: no binary for shard %d (built: %s; rejected programs: %s)" % (self.name, si, sorted(self.bins), sorted(self.failed)))
            env = dict(os.environ)
            env["VERIF_E2_THREADS"] = str(threads_per_shard)
            env["RUST_BACKTRACE"] = "0"
            procs.append((si, of, subprocess.Popen([exe, cf, of], env=env, stdout=subprocess.PIPE, stderr=subprocess.PIPE, text=True)))
        out = [None] * len(cases)
        for si, of, p in procs:
            so, se = p.communicate(timeout=timeout)
            if p.returncode != 0 or not os.path.exists(of):
                raise core.MachineryError("shard %d of corpus %s crashed rc=%s: %s" % (si, self.name, p.returncode, se[-2000:]))
            with open(of) as f:
                for line in f:
                    r = json.loads(line)
                    out[r["n"]] = r["obs"]
        for n, o in enumerate(out):
            if o is not None and isinstance(o, dict) and "machinery" in o:
                raise core.MachineryError("glue error on case %r: %r" % (cases[n], o))
        return out


def write_if_changed(path, text):
    if os.path.exists(path):
        with open(path) as f:
            if f.read() == text:
                return
    with open(path, "w") as f:
        f.write(text)


def spans_files(msg):
    for sp in msg.get("spans", []):
        cur = sp
        while cur:
            yield cur.get("file_name", ""), cur.get("line_start"), cur.get("is_primary")
            exp = cur.get("expansion")
            cur = exp.get("span") if exp else None
    for ch in msg.get("children", []):
        for x in spans_files(ch):
            yield x


def attribute(msg):
    for fn, _, _ in spans_files(msg):
        m = re.search(r"shard\d+/src/([a-z][a-z0-9_]*)\.rs$", fn)
        if m and m.group(1) != "main":
            return m.group(1)
    return None


def diag_summary(msg):
    lines = []
    for fn, ln, prim in spans_files(msg):
        if re.search(r"shard\d+/src/[a-z][a-z0-9_]*\.rs$", fn):
            lines.append(ln)
    return {"code": (msg.get("code") or {}).get("code"), "message": msg.get("message"), "lines": sorted(set(l for l in lines if l)),
            "rendered": (msg.get("rendered") or "")[:1500]}
