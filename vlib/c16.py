"""C16 — query response metadata names each query's real response type."""
import json
import re

from . import core, model, e2
from .model import Method, Arg, Contract, Interface, bare


def q(name, ty, args=(), **kw):
    return Method("query", name, tuple(args), qret=ty, body="{ todo!() }", **kw)


def programs(tier):
    """[(pid, Contract, {(part, method): declared type text})]"""
    out = []
    cq = [q("q_u32", "u32"), q("q_string", "String", (Arg("a", "u32"),)), q("q_inner", "Inner"), q("q_vec", "Vec<Inner>"),
          q("q_resp", "OtherResp", msg_params=", resp=OtherResp", ret="AliasRes"), Method("query", "q_res", (), ret="Result<En, StdError>", body="{ todo!() }", qret="En"),
          q("q_unit", "()"), q("q_opt", "Option<u64>"),
          # explicit resp= wins even when the signature spells a plain result of another type
          q("q_resp_lit", "OtherResp", msg_params=", resp=OtherResp", ret="StdResult<u32>"),
          q("is_phantom", "bool"), q("phantom", "u8")]
    i0 = Interface(name="If0", module="if0", custom="msg=Empty, query=Empty", assoc=(("Rt", "sylvia::serde::Serialize + sylvia::serde::de::DeserializeOwned + std::fmt::Debug + Clone + PartialEq + sylvia::schemars::JsonSchema"),),
                   assoc_impl=(("Rt", "Coin"),),
                   methods=(q("iq_u32", "u32"), q("phantom_count", "u64"), q("iq_resp_lit", "OtherResp", msg_params=", resp=OtherResp", ret="Result<String, Self::Error>"), q("iq_assoc", "Self::Rt"), q("iq_vec_assoc", "Vec<Self::Rt>", (Arg("x", "Self::Rt"),)),
                            # the associated type inside response types that are not paths
                            q("iq_tup_assoc", "(u64, Self::Rt)"), q("iq_arr_assoc", "[Self::Rt; 2]"), q("iq_opt_tup_assoc", "Option<(u32, Self::Rt)>"), Method("exec", "ie", ())))
    i1 = Interface(name="If1", module="if1", custom="msg=Empty, query=Empty", methods=(q("jq_inner", "Inner"), q("jq_addr", "Addr")))
    # two associated types first used in the reverse of their declaration order, by arguments and by response types
    BA = "sylvia::serde::Serialize + sylvia::serde::de::DeserializeOwned + std::fmt::Debug + Clone + PartialEq + sylvia::schemars::JsonSchema"
    i2 = Interface(name="If2", module="if2", custom="msg=Empty, query=Empty", assoc=(("AmountT", BA), ("LabelT", BA)), assoc_impl=(("AmountT", "u64"), ("LabelT", "String")),
                   methods=(q("kq_label", "Self::LabelT", (Arg("x", "Self::LabelT"),)), q("kq_amount", "Self::AmountT"), q("kq_pair", "(Self::LabelT, Self::AmountT)"), q("kq_plain", "bool")))
    base = [Method("instantiate", "inst", ()), Method("exec", "ex", ())]
    out.append(("pq0", Contract(methods=tuple(base + cq), interfaces=(i0, i1), entry_points=""), {"If0": {"Self::Rt": "Coin"}}))
    out.append(("pq1", Contract(methods=tuple(base + cq[:3]), interfaces=(), entry_points=""), {}))
    out.append(("pq2", Contract(methods=tuple(base), interfaces=(i1, i0), entry_points=""), {"If0": {"Self::Rt": "Coin"}}))
    # several parts with generic query messages (each carries the synthetic marker entry): the union must still be produced
    out.append(("pq4", Contract(methods=tuple(base + cq[:2]), interfaces=(i2, i0), entry_points=""), {"If0": {"Self::Rt": "Coin"}, "If2": {"Self::AmountT": "u64", "Self::LabelT": "String"}}))
    B = "sylvia::serde::Serialize + sylvia::serde::de::DeserializeOwned + std::fmt::Debug + Clone + PartialEq + sylvia::schemars::JsonSchema + 'static"
    gq = [q("g_direct", "TA"), q("g_vec", "Vec<TA>"), q("g_plain", "u32"), q("g_arg", "String", (Arg("x", "TB"),)), q("g_tup", "(TA, u32)"), q("g_arr", "[TA; 2]"),
          q("g_opt_tup", "Option<(u8, TA)>"),
          # the response type given only through resp= (the signature spells an aliased result): it still is a use of the parameter
          q("g_resp_attr", "TD", msg_params=", resp=TD", ret="GenRes<TD>")]
    out.append(("pq3", Contract(methods=tuple(base + gq), generics=(("TA", ""), ("TB", ""), ("TD", "")), where=("TA: " + B, "TB: " + B, "TD: " + B), concrete=("Inner", "u64", "String"),
                                entry_points="generics<Inner, u64, String>", new="pub const fn new() -> Self { Self { _p: std::marker::PhantomData } }", interfaces=(i1, i2)),
                {"Ct": {"TA": "Inner", "TB": "u64", "TD": "String"}, "If2": {"Self::AmountT": "u64", "Self::LabelT": "String"}}))
    if tier == "thorough":
        for j, ty in enumerate(["u32", "String", "Inner", "Vec<Inner>", "En", "Uint128", "Binary", "Addr", "Coin", "(u8, String)", "Option<u32>", "Vec<String>"]):
            for n in (0, 1, 2):
                ifs = (i0, i1)[:n]
                out.append(("pqt%d_%d" % (j, n), Contract(methods=tuple(base + [q("only", ty), q("other", "bool", (Arg("a", "u32"),))]), interfaces=ifs, entry_points=""),
                            {"If0": {"Self::Rt": "Coin"}}))
    return out


OTHER_MOD = """
pub mod other {
    use super::*;
    pub mod oif {
        use super::*;
        #[sylvia::interface]
        #[sv::custom(msg=Empty, query=Empty)]
        pub trait Oif {
            type Error: From<StdError>;
            #[sv::msg(query)]
            fn proposal(&self, ctx: QueryCtx, id: u64) -> Result<Inner, Self::Error>;
        }
    }
    pub struct Oc;
    #[sylvia::contract]
    #[sv::messages(oif as Oif)]
    impl Oc {
        pub const fn new() -> Self { Self }
        #[sv::msg(instantiate)]
        fn inst(&self, ctx: InstantiateCtx) -> StdResult<Response> { todo!() }
        #[sv::msg(query)]
        fn tally(&self, ctx: QueryCtx) -> StdResult<u64> { todo!() }
    }
    impl oif::Oif for Oc {
        type Error = StdError;
        fn proposal(&self, ctx: QueryCtx, id: u64) -> Result<Inner, Self::Error> { todo!() }
    }
    #[derive(sylvia::schemars::JsonSchema)]
    #[schemars(crate = "sylvia::schemars")]
    pub struct Both {
        pub first: <super::Ct as ContractApi>::ContractQuery,
        pub second: <Oc as ContractApi>::ContractQuery,
        pub first_exec: <super::Ct as ContractApi>::ContractExec,
    }
    #[derive(sylvia::schemars::JsonSchema)]
    #[schemars(crate = "sylvia::schemars")]
    pub struct BothRev {
        pub second: <Oc as ContractApi>::ContractQuery,
        pub first: <super::Ct as ContractApi>::ContractQuery,
    }
}
"""


def glue(c, subst, two=False):
    ct = e2.contract_concrete_ty(c)
    parts = [("contract", "<%s as ContractApi>::Query" % ct, "Ct", [m for m in c.methods if m.kind == "query"])]
    for i in c.interfaces:
        parts.append((i.module, "<%s as %s::sv::InterfaceMessagesApi>::Query" % (ct, i.module), i.name, [m for m in i.methods if m.kind == "query"]))
    W = "<%s as ContractApi>::ContractQuery" % ct
    decl = []
    for label, ty, disp, ms in parts:
        for m in ms:
            t = m.qret
            for k, v in subst.get(disp, {}).items():
                t = re.sub(r"(?<![\w:])%s\b" % re.escape(k), v, t)
            decl.append('"%s::%s": vsupport::sj(&schema_for!(%s))' % (label, bare(m.name), t))
    body = ('"schemas" => { use vsupport::sylvia::cw_schema::QueryResponses; use vsupport::sylvia::cw_schema::schema_for; json!({\n'
            '  "parts": {%s},\n  "parts_checked": {%s},\n  "wrapper": vsupport::sj(&<%s>::response_schemas_impl()),\n  "wrapper_checked": <%s>::response_schemas().map(|m| vsupport::sj(&m)).map_err(|e| e.to_string()).unwrap_or_else(|e| json!({"integrity_error": e})),\n'
            '  "wrapper_schema": vsupport::sj(&schema_for!(%s)),\n  "part_schema": {%s},\n  "decl": {%s},\n  "two": TWO\n}) },' % (
                ", ".join('"%s": vsupport::sj(&<%s>::response_schemas_impl())' % (label, ty) for label, ty, _, _ in parts),
                ", ".join('"%s": <%s>::response_schemas().map(|m| vsupport::sj(&m)).unwrap_or_else(|e| json!({"integrity_error": e.to_string()}))' % (label, ty) for label, ty, _, _ in parts),
                W, W, W,
                ", ".join('"%s": vsupport::sj(&schema_for!(%s))' % (label, ty) for label, ty, _, _ in parts),
                ", ".join(decl)))
    two_expr = "Value::Null"
    if two:
        two_expr = ('json!({"both": vsupport::sj(&schema_for!(other::Both)), "both_rev": vsupport::sj(&schema_for!(other::BothRev)), '
                    '"other_wrapper": vsupport::sj(&schema_for!(<other::Oc as ContractApi>::ContractQuery)), '
                    '"other_parts": [vsupport::sj(&schema_for!(<other::Oc as other::oif::sv::InterfaceMessagesApi>::Query)), vsupport::sj(&schema_for!(<other::Oc as ContractApi>::Query))], '
                    '"first_exec_wrapper": vsupport::sj(&schema_for!(<%s as ContractApi>::ContractExec))})' % ct)
    body = body.replace("TWO", two_expr)
    return e2.subject_impl(e2.basic_glue(c, None, with_ep=False, with_mt=False) + [body])


def strip_title(s):
    if isinstance(s, dict):
        return {k: strip_title(v) for k, v in s.items()}
    if isinstance(s, list):
        return [strip_title(x) for x in s]
    return s


def run(tier):
    res = core.Result("C16", tier)
    progs = programs(tier)
    cp = e2.Corpus("query-" + tier)
    for pid, c, subst in progs:
        two = pid in ("pq0", "pq1")
        text = e2.render_program(pid, c, glue=glue(c, subst, two=two))
        text = text.replace("use vsupport::{json, Value};", "use vsupport::{json, Value};\ntype AliasRes = StdResult<OtherResp>;\ntype GenRes<T> = StdResult<T>;")
        if two:
            text = text.replace("pub struct Ct;", OTHER_MOD + "\npub struct Ct;", 1)
        cp.add(pid, text)
    cp.write()
    cp.build()
    cases = [{"prog": pid, "op": "schemas"} for pid, c, subst in progs if pid not in cp.failed]
    for pid in cp.failed:
        res.violation({"kind": "compile", "pid": pid, "diags": cp.failed[pid][:3], "what": "%s: valid query program does not compile: %s" % (pid, cp.failed[pid][0]["message"])})
    obs = dict(zip([c["prog"] for c in cases], cp.run_cases(cases)))
    for pid, c, subst in progs:
        if pid not in obs:
            continue
        o = obs[pid]
        res.add(states=1, transitions=1, traces=1, evaluations=1)

        def bad(what, cls, **kw):
            v = {"kind": "schemas", "cls": cls, "pid": pid, "what": "%s: %s" % (pid, what)}
            v.update(kw)
            res.violation(v)
        if "panic" in o:
            bad("panic: %s" % o["panic"], "panic")
            continue
        parts = [("contract", "Ct", [m for m in c.methods if m.kind == "query"])] + [(i.module, i.name, [m for m in i.methods if m.kind == "query"]) for i in c.interfaces]
        union = {}
        for label, disp, ms in parts:
            table = o["parts"][label]
            want_names = sorted(bare(m.name) for m in ms)
            got_names = sorted(k for k in table if k != "__phantom")
            res.add(transitions=len(ms))
            for m in ms:
                res.mark_nontrivial("%s|%s|%s" % (pid, label, m.name))
            if got_names != want_names:
                bad("%s query table has names %s, the queries are %s" % (label, got_names, want_names), "names", part=label)
            for m in ms:
                key = bare(m.name)
                if key in table:
                    decl = o["decl"]["%s::%s" % (label, key)]
                    res.outcome(("match", table[key] == decl))
                    if table[key] != decl:
                        bad("%s::%s is listed with schema `%s`, its handler returns %s whose schema is `%s`" % (
                            label, key, json.dumps(table[key])[:200], m.qret, json.dumps(decl)[:200]), "response_type", part=label, query=key)
                    if key in union:
                        bad("query name %s appears in two parts" % key, "duplicate")
                    union[key] = table[key]
            chk = o["parts_checked"][label]
            if isinstance(chk, dict) and "integrity_error" in chk:
                bad("%s: cosmwasm-schema's own integrity check fails: %s" % (label, chk["integrity_error"]), "integrity", part=label)
        w = {k: v for k, v in o["wrapper"].items() if k != "__phantom"}
        if sorted(w) != sorted(union):
            bad("contract-level table has names %s, the union of the parts is %s" % (sorted(w), sorted(union)), "union_names")
        for k in union:
            if k in w and w[k] != union[k]:
                bad("contract-level table lists %s with another response type than its part" % k, "union_value", query=k)
        # contract-level schema: any_of with one entry per part, each resolving to the part's schema
        ws = o["wrapper_schema"]
        anyof = ws.get("anyOf") or []
        if len(anyof) != len(parts):
            bad("contract-level schema has %d any-of entries for %d parts" % (len(anyof), len(parts)), "any_of_count")
        else:
            defs = ws.get("definitions", {})
            resolved = []
            for ent in anyof:
                ref = ent.get("$ref", "")
                name = ref.split("/")[-1]
                resolved.append(defs.get(name))
            part_schemas = []
            for label, disp, ms in parts:
                ps = dict(o["part_schema"][label])
                part_schemas.append({k: v for k, v in ps.items() if k not in ("$schema", "definitions")})
            for r in resolved:
                if r is None or not any(all(r.get(k) == p.get(k) for k in ("oneOf", "anyOf", "type", "enum") if k in p or k in r) for p in part_schemas):
                    bad("an any-of entry of the contract-level schema does not resolve to any part's schema: %s" % json.dumps(r)[:300], "any_of_entry")
        two = o.get("two")
        if two:
            res.add(states=2, transitions=2, evaluations=2)
            res.mark_nontrivial("%s|two" % pid)
            # a schema generator that meets the contract-level messages of two contracts must keep them apart:
            # each field resolves to that contract's own any-of, whichever comes first
            def entries(root, field):
                defs = root.get("definitions", {})
                node = root["properties"][field]
                while "$ref" in node:
                    node = defs.get(node["$ref"].split("/")[-1], {})
                outp = []
                for ent in node.get("anyOf") or []:
                    while "$ref" in ent:
                        ent = defs.get(ent["$ref"].split("/")[-1], {})
                    outp.append({k: v for k, v in ent.items() if k in ("oneOf", "anyOf", "type", "enum")})
                return outp
            want_first = [{k: v for k, v in o["part_schema"][label].items() if k in ("oneOf", "anyOf", "type", "enum")} for label, disp, ms in parts]
            want_second = [{k: v for k, v in p.items() if k in ("oneOf", "anyOf", "type", "enum")} for p in two["other_parts"]]
            canon = lambda xs: sorted(json.dumps(x, sort_keys=True) for x in xs)
            for root_name in ("both", "both_rev"):
                for field, want in (("first", want_first), ("second", want_second)):
                    got = entries(two[root_name], field)
                    res.outcome(("two", canon(got) == canon(want)))
                    if canon(got) != canon(want):
                        bad("a schema document embedding the contract-level query messages of two contracts (%s): field `%s` resolves to any-of %s, that contract's parts are %s" % (
                            root_name, field, json.dumps(got)[:300], json.dumps(want)[:300]), "two_contracts", root=root_name, field=field)
    res.parts["programs"] = len(progs)
    res.sample({"program": "pq0", "contract_level_table_keys": sorted(obs["pq0"]["wrapper"].keys()) if "pq0" in obs else None})
    res.cov["rule"] = ("compiled programs with queries returning u32 / String / struct / Vec<struct> / enum via Result<_, E> / unit / Option / a type given with resp= "
                       "behind an aliased result / a generic parameter (directly and in Vec) / an interface's associated type (directly, in Vec, inside a tuple / array / Option of a tuple; same for the generic parameter), on contracts with "
                       "0-2 interfaces in both orders and with / without own queries (thorough adds 12 types x 0-2 interfaces): every part's response table keys == "
                       "query wire names, every value == schema_for!(declared type), contract-level table == union of the parts, contract-level schema's any-of "
                       "resolves to the parts' schemas, cosmwasm-schema's integrity check passes; a schema document embedding the contract-level query messages of two contracts (both field orders) resolves each to its own contract's parts.  non-trivial = every (program, part, query)")
    res.assumptions += ["schemas are compared as serde_json values of schemars' RootSchema", "the synthetic `__phantom` entry of generic messages is ignored"]
    return res.finish()
