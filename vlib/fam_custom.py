"""Family `custom`: contracts using chain-custom message/query types mixing bridged (Empty-typed)
and native interfaces, each with a native twin (C11)."""
from . import core, model, e2
from .model import Method, Arg, Contract, Interface

MODES = ["E", "A"]   # E: fixed to Empty by sv::custom; A: associated type ExecC / QueryC


def iface(mm, qm, idx, rich=True):
    custom = []
    if mm == "E":
        custom.append("msg=Empty")
    elif mm == "M":
        custom.append("msg=MyMsg")
    if qm == "E":
        custom.append("query=Empty")
    elif qm == "M":
        custom.append("query=MyQuery")
    att = []
    if mm == "E":
        att.append("msg")
    if qm == "E":
        att.append("query")
    name = "I%s%s" % (mm.lower(), qm.lower())
    ms = (Method("exec", "e_%s%s" % (mm.lower(), qm.lower()), (Arg("a", "u32"), Arg("s", "String"))),
          Method("sudo", "s_%s%s" % (mm.lower(), qm.lower()), (Arg("a", "u32"),)),
          Method("query", "q_%s%s" % (mm.lower(), qm.lower()), (Arg("a", "u32"),)))
    return Interface(name=name.capitalize(), module="i_%s%s" % (mm.lower(), qm.lower()), methods=ms,
                     custom=", ".join(custom) if custom else None, exec_c=(mm == "A"), query_c=(qm == "A"),
                     messages_custom=("custom(%s)" % ", ".join(att)) if att else None,
                     body_style="rich" if (mm == "E" and rich) else None)


def programs(tier):
    own = (Method("instantiate", "inst", (Arg("a", "u32"),)), Method("exec", "own_e", (Arg("a", "u32"),)),
           Method("query", "own_q", (Arg("a", "u32"),)), Method("sudo", "own_s", (Arg("a", "u32"),)))
    ifs = [iface(mm, qm, k) for k, (mm, qm) in enumerate((m, q) for m in MODES for q in MODES)]
    out = []
    # the custom contract: all four bridged/native mixes + interfaces fixed to the chain types
    cust_ifs = tuple(ifs) + (iface("M", "M", 9), iface("M", "E", 10), iface("E", "M", 11))
    out.append(("pcust0", Contract(methods=own, interfaces=cust_ifs, custom="msg=MyMsg, query=MyQuery", entry_points=""), {"custom"}))
    # the flags of `: custom(..)` in the other order
    rev_ifs = tuple(Interface(**{**i.__dict__, "messages_custom": "custom(query, msg)"}) if i.messages_custom == "custom(msg, query)" else i for i in ifs)
    out.append(("pcust1", Contract(methods=own, interfaces=rev_ifs, custom="msg=MyMsg, query=MyQuery", entry_points=""), {"custom"}))
    # native twin: same Empty/associated interfaces on a contract without custom types (no `: custom(..)` needed)
    nat_ifs = tuple(Interface(**{**i.__dict__, "messages_custom": None}) for i in ifs)
    out.append(("pnat0", Contract(methods=own, interfaces=nat_ifs, entry_points=""), {"native"}))
    # only custom msg / only custom query contracts
    out.append(("pcustm", Contract(methods=own, interfaces=(iface("E", "E", 0), iface("A", "E", 1)), custom="msg=MyMsg", entry_points=""), {"custom_msg_only"}))
    m_ifs = (Interface(**{**iface("E", "E", 0).__dict__, "messages_custom": "custom(msg)"}), Interface(**{**iface("A", "E", 1).__dict__, "messages_custom": None}))
    out[-1] = ("pcustm", Contract(methods=own, interfaces=m_ifs, custom="msg=MyMsg", entry_points=""), {"custom_msg_only"})
    q_ifs = (Interface(**{**iface("E", "E", 0).__dict__, "messages_custom": "custom(query)"}), Interface(**{**iface("E", "A", 1).__dict__, "messages_custom": None}))
    out.append(("pcustq", Contract(methods=own, interfaces=q_ifs, custom="query=MyQuery", entry_points=""), {"custom_query_only"}))
    return out


_CACHE = {}


def corpus(tier):
    if tier in _CACHE:
        return _CACHE[tier]
    progs = programs(tier)
    recs = []
    for pid, c, tags in progs:
        recs.append(model.e1_contract_record(pid + ":ct", c, want="items"))
        for i in c.interfaces:
            recs.append(model.e1_interface_record(pid + ":" + i.module, i, want="items"))
    obs = {o["id"]: o for o in core.e1_run(recs, "custom-" + tier)}
    cp = e2.Corpus("custom-" + tier)
    info = {}
    rejected = {}
    for pid, c, tags in progs:
        names = {}
        o = obs[pid + ":ct"]
        bad_o = next((x for x in [o] + [obs[pid + ":" + i.module] for i in c.interfaces] if x.get("dirty") or x.get("panic") or x.get("has_compile_error")), None)
        if bad_o is not None:
            rejected[pid] = [{"code": None, "message": "rejected by the macro (%s): %s" % (bad_o["id"], bad_o.get("panic") or (bad_o.get("compile_errors") or ["diagnostic emitted"])[0]),
                              "lines": [], "rendered": ""}]
            info[pid] = (c, tags, names)
            continue
        for k, fns in e2.e1_names(o).items():
            names[("contract", k)] = fns
        for i in c.interfaces:
            for k, fns in e2.e1_names(obs[pid + ":" + i.module]).items():
                names[(i.module, k)] = fns
        glue = e2.subject_impl(e2.basic_glue(c, names))
        cp.add(pid, e2.render_program(pid, c, glue=glue))
        info[pid] = (c, tags, names)
    cp.write()
    cp.build()
    cp.failed.update(rejected)
    _CACHE[tier] = (cp, info)
    return _CACHE[tier]


def e1_records(tier):
    recs = []
    for pid, c, tags in programs("quick"):
        recs.append(model.e1_contract_record("custom:" + pid + ":ct", c))
        for i in c.interfaces:
            recs.append(model.e1_interface_record("custom:" + pid + ":" + i.module, i))
    return recs
