"""C11 — bridging to chain-custom types preserves the response and the call.

E4: every small Response<Empty> through IntoResponse (suite `intoresp`).
E2: contracts with custom chain types mixing bridged and native interfaces vs their native twin.
"""
import json

from . import core, e4, model, fam_basic, fam_custom
from .model import bare


def run_e2(res, tier):
    cp, info = fam_custom.corpus(tier)
    for pid in cp.failed:
        res.violation({"kind": "compile", "pid": pid, "what": "valid custom program %s does not compile: %s" % (pid, cp.failed[pid][0]["message"]), "diags": cp.failed[pid][:3]})
    if "pnat0" in cp.failed:
        return   # reported above; nothing to compare against
    nat_c = info["pnat0"][0]
    nat_ifaces = {i.module: i for i in nat_c.interfaces}
    ctxs = [fam_basic.CONTEXTS[1], fam_basic.CONTEXTS[2], fam_basic.FAIL_CONTEXTS[0]]
    cases, exp = [], []
    for pid, (c, tags, names) in sorted(info.items()):
        if pid == "pnat0" or pid in cp.failed:
            continue
        for (label, disp, m) in fam_basic.handlers(c):
            if m.kind == "instantiate":
                continue
            iface = next((i for i in c.interfaces if i.module == label), None)
            bridged_msg = iface is not None and iface.messages_custom and "msg" in iface.messages_custom
            flags = ["0", "7", "8"] if (bridged_msg and m.kind in ("exec", "sudo")) else ["0", "3"]
            for flag in flags:
                tup = tuple([flag] + [model.TYPE_VALUES[a.ty][1] for a in m.args[1:]])
                d = fam_basic.doc(m, tup)
                for cx in ctxs:
                    for op, part in (("dispatch", "wrapper"), ("ep", ""), ("mt", "")):
                        twin = label in nat_ifaces or label == "contract"
                        cases.append({"prog": pid, "op": op, "kind": m.kind, "part": part, "input": d, "ctx": cx})
                        exp.append(("subject", pid, label, disp, m, tup, cx, op, bridged_msg, twin, len(cases)))
                        if twin:
                            cases.append({"prog": "pnat0", "op": op, "kind": m.kind, "part": part, "input": d, "ctx": cx})
                            exp.append(("twin",))
    obs = cp.run_cases(cases)
    k = 0
    while k < len(cases):
        e = exp[k]
        _, pid, label, disp, m, tup, cx, op, bridged_msg, twin, _ = e
        o = obs[k]
        t = obs[k + 1] if twin else None
        k += 2 if twin else 1
        res.add(states=1, transitions=2 if twin else 1, traces=2 if twin else 1, evaluations=1)
        h = "%s::%s" % (disp, bare(m.name))
        key = "%s|%s|%s|%s|%s" % (pid, h, tup, op, json.dumps(cx, sort_keys=True))
        if label != "contract":
            res.mark_nontrivial(key)

        def bad(what, cls):
            res.violation({"kind": "bridge", "cls": cls, "pid": pid, "handler": h, "via": op, "args": list(tup), "ctx": cx, "obs": o, "twin": t,
                           "what": "%s %s via %s (args %s): %s" % (pid, h, op, list(tup), what)})
        if "panic" in o:
            bad("panic: %s" % o["panic"], "panic")
            continue
        if o.get("res") == "decode_err":
            bad("document not decodable: %s" % o.get("err"), "decode")
            continue
        failing = "fail" in cx["storage"]
        custom_flag = tup[0] == "7" and bridged_msg and not failing
        res.outcome((o.get("res"), custom_flag, bridged_msg))
        if custom_flag:
            if o.get("res") != "err":
                bad("response carries a custom-typed (Empty) message but the bridged call succeeded with %s" % json.dumps(o.get("resp"))[:300], "custom_passed")
            continue
        # the handler must have seen the caller's context
        want_echo = fam_basic.expected_echo(disp, m, tup, cx)
        if not failing:
            if o.get("res") != "ok":
                bad("bridged call failed: %s" % o.get("err"), "unexpected_error")
                continue
            try:
                if m.kind == "query":
                    got = json.loads(json.loads(o["bin"])["echo"])
                else:
                    got = json.loads([a for a in o["resp"]["attributes"] if a["key"] == "echo"][0]["value"])
            except Exception:
                bad("unreadable echo", "echo")
                continue
            if got != want_echo:
                diff = {kk: (got.get(kk), want_echo.get(kk)) for kk in want_echo if got.get(kk) != want_echo.get(kk)}
                bad("handler saw a different call (got, want): %s" % diff, "context")
        if twin:
            to = t
            if to is None or "panic" in to:
                raise core.MachineryError("native twin failed: %r" % to)
            for fld in ("res", "resp", "bin", "storage"):
                if o.get(fld) != to.get(fld):
                    bad("%s differs from the native twin: %s vs %s" % (fld, json.dumps(o.get(fld))[:400], json.dumps(to.get(fld))[:400]), "twin_" + fld)
                    break
            if o.get("res") == "err" and o.get("err") != to.get("err") and op != "mt":
                bad("error differs from the native twin: %s vs %s" % (o.get("err"), to.get("err")), "twin_err")
    res.parts["e2_cases"] = len(cases)
    res.sample(lambda: {"case": cases[0], "observation": obs[0]})


def feature_subsets(tier):
    """Subsets of the framework's cargo features that decide which CosmosMsg variants exist (and which conversion arms are compiled)."""
    import itertools
    allf = list(e4.F_ALL)
    if tier == "thorough":
        return [tuple(c) for n in range(len(allf), -1, -1) for c in itertools.combinations(allf, n)]
    return [tuple(allf), (), ("f_staking",), ("f_stargate", "f_cw20")]


def run(tier):
    res = core.Result("C11", tier)
    out = None
    nontrivial = 0
    for feats in feature_subsets(tier):
        o = e4.run_suite_into(res, "intoresp", tier, feats=feats)
        if o is None:
            continue
        want = [f in feats for f in e4.F_ALL]
        if o.get("features") != want:
            raise core.MachineryError("intoresp suite built for features %s reports %s" % (feats, o.get("features")))
        out = out or o
        fl = "+".join(f[2:] for f in feats) or "none"
        res.add(states=o["responses"], transitions=o["responses"], traces=o["responses"], evaluations=o["responses"])
        nontrivial += o["nontrivial"]
        for oc in o["outcomes"]:
            res.outcome(oc)
        res.outcome(("features", fl))
        seen = set()
        for v in o["violations"]:
            key = (v["what"], tuple(v.get("msg_kinds", [])))
            if key in seen:
                continue
            seen.add(key)
            res.violation({"kind": "intoresp", "cls": v["what"], "msg_kinds": v.get("msg_kinds"), "response": v.get("response"), "error": v.get("error"), "features": fl,
                           "what": "into_response (framework features: %s): %s; message kinds %s; %s" % (fl, v["what"], v.get("msg_kinds"), (v.get("error") or "")[:200])})
        if o["bad"] and not o["violations"]:
            raise core.MachineryError("intoresp suite counted bad cases but reported none")
        res.parts.setdefault("intoresp_by_features", {})[fl] = {"responses": o["responses"], "message_lists": o["message_lists"], "submsg_alphabet": o["submsg_alphabet"],
                                                                 "msg_kinds": o["msg_kinds"], "conversion_errors": o["errors"]}
    res.nontrivial = set(range(nontrivial))
    if out is not None:
        res.sample(out["sample"])
    else:
        out = e4.stub()
    run_e2(res, tier)
    res.cov["rule"] = ("E4: for the framework built with each explored subset of its features {staking, stargate, cosmwasm_2_0} (quick: all, none, staking only, "
                       "stargate+cosmwasm_2_0; thorough: all 8): every Response<Empty> with <= 2 sub-messages over the message kinds that exist under that subset "
                       "(with all: %d kinds, every CosmosMsg variant incl. Ibc, Gov, Any, deprecated Stargate, "
                       "Custom(Empty)) x id x payload x gas limit x reply_on, 0-2 attributes, 0-2 events, data absent/present, both orders of two sub-messages: "
                       "conversion is Err iff a Custom message is present, else JSON- and field-wise equal.  E2: custom-typed contracts mixing interfaces bridged for "
                       "msg, query, both, neither and chain-typed ones; every interface handler x flag (plain / custom message / stargate message) x 3 contexts "
                       "(incl. failing) through wrapper dispatch, entry points and the multitest Contract impl, compared with the native twin and the model echo. "
                       "non-trivial = non-empty response / interface handler case" % len(out["msg_kinds"]))
    res.assumptions += ["`quick` draws the second sub-message from one value per message kind; `thorough` uses the full product"]
    return res.finish()
