// E1 — in-process expansion explorer.
//
// This file is `include!`d into sylvia-derive's unit-test build (feature `verif-hook`), so it can
// call the crate-private `contract_impl`, `interface_impl` and `entry_points_impl` on
// `proc_macro2::TokenStream`s.  It reads program records, expands every one of them (twice),
// and writes one structured observation per program as a JSON line.  All oracles live in
// /verif/vlib (Python) except the independent attribute stripper for C13, which needs `syn`.
//
// Input  (env VERIF_E1_IN):  records separated by 0x1e, fields by 0x1f:
//        id, macro (contract|interface|entry_points|file), attr tokens, item source, want-flags
// Output (env VERIF_E1_OUT): JSON lines.

use std::cell::RefCell;
use std::collections::BTreeSet;
use std::fmt::Write as _;
use std::panic::{catch_unwind, panic_any, AssertUnwindSafe};
use std::sync::atomic::{AtomicUsize, Ordering};
use std::sync::{Arc, Mutex};

use proc_macro2::TokenStream as Ts;
use quote::ToTokens;

// ------------------------------------------------------------------------------------------
// tiny JSON value

#[derive(Clone, Debug)]
enum J {
    Null,
    Bool(bool),
    Num(i64),
    Str(String),
    Arr(Vec<J>),
    Obj(Vec<(&'static str, J)>),
}

fn esc(s: &str, out: &mut String) {
    out.push('"');
    for c in s.chars() {
        match c {
            '"' => out.push_str("\\\""),
            '\\' => out.push_str("\\\\"),
            '\n' => out.push_str("\\n"),
            '\r' => out.push_str("\\r"),
            '\t' => out.push_str("\\t"),
            c if (c as u32) < 0x20 => {
                let _ = write!(out, "\\u{:04x}", c as u32);
            }
            c => out.push(c),
        }
    }
    out.push('"');
}

impl J {
    fn write(&self, out: &mut String) {
        match self {
            J::Null => out.push_str("null"),
            J::Bool(b) => out.push_str(if *b { "true" } else { "false" }),
            J::Num(n) => {
                let _ = write!(out, "{}", n);
            }
            J::Str(s) => esc(s, out),
            J::Arr(v) => {
                out.push('[');
                for (i, x) in v.iter().enumerate() {
                    if i > 0 {
                        out.push(',');
                    }
                    x.write(out);
                }
                out.push(']');
            }
            J::Obj(v) => {
                out.push('{');
                for (i, (k, x)) in v.iter().enumerate() {
                    if i > 0 {
                        out.push(',');
                    }
                    esc(k, out);
                    out.push(':');
                    x.write(out);
                }
                out.push('}');
            }
        }
    }
}

fn s<T: ToTokens>(t: &T) -> J {
    J::Str(t.to_token_stream().to_string())
}
fn st(x: &str) -> J {
    J::Str(x.to_string())
}
fn opt<T: ToTokens>(t: &Option<T>) -> J {
    match t {
        Some(t) => s(t),
        None => J::Null,
    }
}

// ------------------------------------------------------------------------------------------
// expansion under proc_macro_error::entry_point

struct Sentinel;

thread_local! {
    static STASH: RefCell<Option<(String, bool)>> = RefCell::new(None);
}

struct Expansion {
    out: Option<String>,
    dirty: bool,
    panic: Option<String>,
}

fn expand(mac: &str, attr: Ts, item: Ts) -> Expansion {
    STASH.with(|s| *s.borrow_mut() = None);
    let mac = mac.to_string();
    let r = catch_unwind(AssertUnwindSafe(|| {
        let _ = proc_macro_error::entry_point(
            AssertUnwindSafe(move || {
                let ts = match mac.as_str() {
                    "contract" => crate::contract_impl(attr, item),
                    "interface" => crate::interface_impl(attr, item),
                    "entry_points" => crate::entry_points_impl(attr, item),
                    other => panic!("unknown macro {}", other),
                };
                let dirty = catch_unwind(|| proc_macro_error::abort_if_dirty()).is_err();
                STASH.with(|s| *s.borrow_mut() = Some((ts.to_string(), dirty)));
                panic_any(Sentinel);
                #[allow(unreachable_code)]
                {
                    unreachable!()
                }
            }),
            false,
        );
    }));
    let stash = STASH.with(|s| s.borrow_mut().take());
    match (r, stash) {
        (Err(p), Some((out, dirty))) if p.is::<Sentinel>() => Expansion {
            out: Some(out),
            dirty,
            panic: None,
        },
        (Err(p), _) => {
            let msg = if let Some(m) = p.downcast_ref::<String>() {
                m.clone()
            } else if let Some(m) = p.downcast_ref::<&str>() {
                m.to_string()
            } else {
                "non-string panic".to_string()
            };
            Expansion {
                out: None,
                dirty: false,
                panic: Some(msg),
            }
        }
        (Ok(()), _) => Expansion {
            out: None,
            dirty: false,
            panic: Some("entry_point returned".into()),
        },
    }
}

// ------------------------------------------------------------------------------------------
// independent stripper (C13).  Written against the property text, not against fold.rs:
// removes two-segment `sv::<known>` attributes on the item and on its methods, and every
// attribute on parameters of methods that carry an `sv::msg` attribute.  Nothing else.

const SV_ATTRS: &[&str] = &[
    "custom",
    "error",
    "messages",
    "msg",
    "override_entry_point",
    "attr",
    "msg_attr",
    "payload",
    "data",
    "features",
];

fn is_sv(attr: &syn::Attribute) -> bool {
    let segs: Vec<String> = attr
        .path()
        .segments
        .iter()
        .map(|s| s.ident.to_string())
        .collect();
    attr.path().leading_colon.is_none()
        && segs.len() == 2
        && segs[0] == "sv"
        && SV_ATTRS.contains(&segs[1].as_str())
}

fn is_sv_msg(attr: &syn::Attribute) -> bool {
    is_sv(attr) && attr.path().segments[1].ident == "msg"
}

fn strip_sig(sig: &mut syn::Signature) {
    for input in sig.inputs.iter_mut() {
        match input {
            syn::FnArg::Receiver(r) => r.attrs.clear(),
            syn::FnArg::Typed(t) => t.attrs.clear(),
        }
    }
}

fn strip_impl(mut i: syn::ItemImpl) -> syn::ItemImpl {
    i.attrs.retain(|a| !is_sv(a));
    for it in i.items.iter_mut() {
        if let syn::ImplItem::Fn(f) = it {
            let handler = f.attrs.iter().any(is_sv_msg);
            f.attrs.retain(|a| !is_sv(a));
            if handler {
                strip_sig(&mut f.sig);
            }
        }
    }
    i
}

fn strip_trait(mut i: syn::ItemTrait) -> syn::ItemTrait {
    i.attrs.retain(|a| !is_sv(a));
    for it in i.items.iter_mut() {
        if let syn::TraitItem::Fn(f) = it {
            let handler = f.attrs.iter().any(is_sv_msg);
            f.attrs.retain(|a| !is_sv(a));
            if handler {
                strip_sig(&mut f.sig);
            }
        }
    }
    i
}

/// Expected first item of the expansion, as a token string.
fn expected_first(mac: &str, item_src: &str) -> Option<String> {
    match mac {
        "contract" => {
            let i: syn::ItemImpl = syn::parse_str(item_src).ok()?;
            let i = strip_impl(i);
            Some(quote::quote!(#[allow(clippy::new_without_default)] #i).to_string())
        }
        "interface" => {
            let i: syn::ItemTrait = syn::parse_str(item_src).ok()?;
            let i = strip_trait(i);
            Some(i.to_token_stream().to_string())
        }
        "entry_points" => {
            let i: syn::ItemImpl = syn::parse_str(item_src).ok()?;
            Some(i.to_token_stream().to_string())
        }
        _ => None,
    }
}

// ------------------------------------------------------------------------------------------
// structural dump

struct Opts {
    mt: bool,
    all_bodies: bool,
    bodies: BTreeSet<String>,
    items: bool,
    binders: bool,
}

fn attrs_j(attrs: &[syn::Attribute]) -> J {
    J::Arr(attrs.iter().map(|a| s(a)).collect())
}

fn generics_j(g: &syn::Generics) -> Vec<(&'static str, J)> {
    let names: Vec<J> = g
        .params
        .iter()
        .map(|p| match p {
            syn::GenericParam::Type(t) => J::Str(t.ident.to_string()),
            syn::GenericParam::Lifetime(l) => J::Str(l.lifetime.to_string()),
            syn::GenericParam::Const(c) => J::Str(c.ident.to_string()),
        })
        .collect();
    let full: Vec<J> = g.params.iter().map(|p| s(p)).collect();
    let wh: Vec<J> = g
        .where_clause
        .as_ref()
        .map(|w| w.predicates.iter().map(|p| s(p)).collect())
        .unwrap_or_default();
    vec![
        ("generics", J::Arr(names)),
        ("generics_full", J::Arr(full)),
        ("where", J::Arr(wh)),
    ]
}

fn fields_j(fields: &syn::Fields) -> J {
    J::Arr(
        fields
            .iter()
            .enumerate()
            .map(|(i, f)| {
                J::Obj(vec![
                    (
                        "name",
                        match &f.ident {
                            Some(id) => J::Str(id.to_string()),
                            None => J::Str(format!("{}", i)),
                        },
                    ),
                    ("ty", s(&f.ty)),
                    ("attrs", attrs_j(&f.attrs)),
                    ("vis", s(&f.vis)),
                ])
            })
            .collect(),
    )
}

/// Every lower-case identifier the generated code binds as a value (function and closure parameters, `let`,
/// match-arm and struct patterns), keyed by the innermost enclosing function.
struct BinderCollector {
    cur: Vec<String>,
    out: BTreeSet<(String, String)>,
}

impl<'ast> syn::visit::Visit<'ast> for BinderCollector {
    fn visit_item_fn(&mut self, f: &'ast syn::ItemFn) {
        self.cur.push(f.sig.ident.to_string());
        syn::visit::visit_item_fn(self, f);
        self.cur.pop();
    }
    fn visit_impl_item_fn(&mut self, f: &'ast syn::ImplItemFn) {
        self.cur.push(f.sig.ident.to_string());
        syn::visit::visit_impl_item_fn(self, f);
        self.cur.pop();
    }
    fn visit_trait_item_fn(&mut self, f: &'ast syn::TraitItemFn) {
        self.cur.push(f.sig.ident.to_string());
        syn::visit::visit_trait_item_fn(self, f);
        self.cur.pop();
    }
    fn visit_pat_ident(&mut self, p: &'ast syn::PatIdent) {
        let n = p.ident.to_string();
        if n.chars().next().map(|c| c.is_lowercase() || c == '_').unwrap_or(false) {
            self.out.insert((self.cur.last().cloned().unwrap_or_default(), n));
        }
        syn::visit::visit_pat_ident(self, p);
    }
    fn visit_field_pat(&mut self, p: &'ast syn::FieldPat) {
        syn::visit::visit_field_pat(self, p);
    }
}

struct MatchCollector {
    arms: Vec<J>,
}

impl<'ast> syn::visit::Visit<'ast> for MatchCollector {
    fn visit_expr_match(&mut self, m: &'ast syn::ExprMatch) {
        let scrut = m.expr.to_token_stream().to_string();
        for arm in &m.arms {
            self.arms.push(J::Obj(vec![
                ("on", J::Str(scrut.clone())),
                ("pat", s(&arm.pat)),
                ("guard", match &arm.guard {
                    Some((_, g)) => s(g),
                    None => J::Null,
                }),
                ("body", s(&arm.body)),
            ]));
        }
        syn::visit::visit_expr_match(self, m);
    }
}

fn sig_j(sig: &syn::Signature) -> Vec<(&'static str, J)> {
    let params: Vec<J> = sig
        .inputs
        .iter()
        .map(|a| match a {
            syn::FnArg::Receiver(r) => J::Obj(vec![
                ("name", st("self")),
                ("ty", s(r)),
                ("attrs", attrs_j(&r.attrs)),
            ]),
            syn::FnArg::Typed(t) => J::Obj(vec![
                ("name", s(&t.pat)),
                ("ty", s(&t.ty)),
                ("attrs", attrs_j(&t.attrs)),
            ]),
        })
        .collect();
    let mut v = vec![
        ("name", J::Str(sig.ident.to_string())),
        ("sig", s(sig)),
        ("params", J::Arr(params)),
        (
            "ret",
            match &sig.output {
                syn::ReturnType::Default => J::Null,
                syn::ReturnType::Type(_, t) => s(t),
            },
        ),
        ("constness", J::Bool(sig.constness.is_some())),
    ];
    v.extend(generics_j(&sig.generics));
    v
}

fn fn_j(
    attrs: &[syn::Attribute],
    vis: Option<&syn::Visibility>,
    sig: &syn::Signature,
    block: Option<&syn::Block>,
    o: &Opts,
) -> J {
    let mut v = vec![("k", st("fn")), ("attrs", attrs_j(attrs))];
    if let Some(vis) = vis {
        v.push(("vis", s(vis)));
    }
    v.extend(sig_j(sig));
    if let Some(b) = block {
        if o.all_bodies || o.bodies.contains(&sig.ident.to_string()) {
            v.push(("body", s(b)));
            let mut mc = MatchCollector { arms: vec![] };
            syn::visit::Visit::visit_block(&mut mc, b);
            v.push(("arms", J::Arr(mc.arms)));
        }
    }
    J::Obj(v)
}

fn item_j(item: &syn::Item, o: &Opts) -> Option<J> {
    Some(match item {
        syn::Item::Mod(m) => {
            if m.ident == "mt" && !o.mt {
                return Some(J::Obj(vec![
                    ("k", st("mod")),
                    ("name", st("mt")),
                    ("skipped", J::Bool(true)),
                ]));
            }
            let items = m
                .content
                .as_ref()
                .map(|(_, items)| items.iter().filter_map(|i| item_j(i, o)).collect())
                .unwrap_or_default();
            J::Obj(vec![
                ("k", st("mod")),
                ("name", J::Str(m.ident.to_string())),
                ("attrs", attrs_j(&m.attrs)),
                ("vis", s(&m.vis)),
                ("items", J::Arr(items)),
            ])
        }
        syn::Item::Enum(e) => {
            let mut v = vec![
                ("k", st("enum")),
                ("name", J::Str(e.ident.to_string())),
                ("attrs", attrs_j(&e.attrs)),
                ("vis", s(&e.vis)),
            ];
            v.extend(generics_j(&e.generics));
            v.push((
                "variants",
                J::Arr(
                    e.variants
                        .iter()
                        .map(|va| {
                            J::Obj(vec![
                                ("name", J::Str(va.ident.to_string())),
                                ("attrs", attrs_j(&va.attrs)),
                                (
                                    "shape",
                                    st(match va.fields {
                                        syn::Fields::Named(_) => "named",
                                        syn::Fields::Unnamed(_) => "tuple",
                                        syn::Fields::Unit => "unit",
                                    }),
                                ),
                                ("fields", fields_j(&va.fields)),
                            ])
                        })
                        .collect(),
                ),
            ));
            J::Obj(v)
        }
        syn::Item::Struct(e) => {
            let mut v = vec![
                ("k", st("struct")),
                ("name", J::Str(e.ident.to_string())),
                ("attrs", attrs_j(&e.attrs)),
                ("vis", s(&e.vis)),
            ];
            v.extend(generics_j(&e.generics));
            v.push(("fields", fields_j(&e.fields)));
            J::Obj(v)
        }
        syn::Item::Impl(i) => {
            let mut v = vec![
                ("k", st("impl")),
                ("attrs", attrs_j(&i.attrs)),
                ("self_ty", s(&i.self_ty)),
                (
                    "trait",
                    match &i.trait_ {
                        Some((_, p, _)) => s(p),
                        None => J::Null,
                    },
                ),
            ];
            v.extend(generics_j(&i.generics));
            let items: Vec<J> = i
                .items
                .iter()
                .map(|it| match it {
                    syn::ImplItem::Fn(f) => {
                        fn_j(&f.attrs, Some(&f.vis), &f.sig, Some(&f.block), o)
                    }
                    syn::ImplItem::Type(t) => J::Obj(vec![
                        ("k", st("type")),
                        ("name", J::Str(t.ident.to_string())),
                        ("generics_full", J::Arr(t.generics.params.iter().map(|p| s(p)).collect())),
                        ("ty", s(&t.ty)),
                    ]),
                    syn::ImplItem::Const(c) => J::Obj(vec![
                        ("k", st("const")),
                        ("name", J::Str(c.ident.to_string())),
                        ("ty", s(&c.ty)),
                        ("expr", s(&c.expr)),
                    ]),
                    other => J::Obj(vec![("k", st("other")), ("src", s(other))]),
                })
                .collect();
            v.push(("items", J::Arr(items)));
            J::Obj(v)
        }
        syn::Item::Trait(t) => {
            let mut v = vec![
                ("k", st("trait")),
                ("name", J::Str(t.ident.to_string())),
                ("attrs", attrs_j(&t.attrs)),
                ("vis", s(&t.vis)),
                ("supertraits", s(&t.supertraits)),
            ];
            v.extend(generics_j(&t.generics));
            let items: Vec<J> = t
                .items
                .iter()
                .map(|it| match it {
                    syn::TraitItem::Fn(f) => fn_j(&f.attrs, None, &f.sig, f.default.as_ref(), o),
                    syn::TraitItem::Type(ty) => J::Obj(vec![
                        ("k", st("type")),
                        ("name", J::Str(ty.ident.to_string())),
                        ("generics_full", J::Arr(ty.generics.params.iter().map(|p| s(p)).collect())),
                        ("bounds", s(&ty.bounds)),
                    ]),
                    other => J::Obj(vec![("k", st("other")), ("src", s(other))]),
                })
                .collect();
            v.push(("items", J::Arr(items)));
            J::Obj(v)
        }
        syn::Item::Fn(f) => fn_j(&f.attrs, Some(&f.vis), &f.sig, Some(&f.block), o),
        syn::Item::Const(c) => J::Obj(vec![
            ("k", st("const")),
            ("name", J::Str(c.ident.to_string())),
            ("vis", s(&c.vis)),
            ("ty", s(&c.ty)),
            ("expr", s(&c.expr)),
        ]),
        syn::Item::Type(t) => {
            let mut v = vec![
                ("k", st("type")),
                ("name", J::Str(t.ident.to_string())),
                ("vis", s(&t.vis)),
                ("ty", s(&t.ty)),
            ];
            v.extend(generics_j(&t.generics));
            J::Obj(v)
        }
        syn::Item::Use(u) => J::Obj(vec![("k", st("use")), ("src", s(u))]),
        other => J::Obj(vec![("k", st("other")), ("src", s(other))]),
    })
}

// ------------------------------------------------------------------------------------------
// one record

fn fnv(sx: &str) -> String {
    let mut h: u64 = 0xcbf29ce484222325;
    for b in sx.as_bytes() {
        h ^= *b as u64;
        h = h.wrapping_mul(0x100000001b3);
    }
    format!("{:016x}", h)
}

fn parse_opts(want: &str) -> Opts {
    let mut o = Opts {
        mt: false,
        all_bodies: false,
        bodies: BTreeSet::new(),
        items: false,
        binders: false,
    };
    for w in want.split(',') {
        let w = w.trim();
        if w == "mt" {
            o.mt = true;
        } else if w == "allbodies" {
            o.all_bodies = true;
        } else if w == "items" {
            o.items = true;
        } else if w == "binders" {
            o.binders = true;
        } else if let Some(rest) = w.strip_prefix("bodies=") {
            for b in rest.split('|') {
                o.bodies.insert(b.to_string());
            }
        }
    }
    o
}

fn observe(id: &str, mac: &str, attr_src: &str, item_src: &str, want: &str) -> J {
    let o = parse_opts(want);
    let mut rec: Vec<(&'static str, J)> = vec![("id", st(id)), ("mac", st(mac))];
    let attr: Result<Ts, _> = attr_src.parse::<Ts>();
    let item: Result<Ts, _> = item_src.parse::<Ts>();
    let (attr, item) = match (attr, item) {
        (Ok(a), Ok(i)) => (a, i),
        _ => {
            rec.push(("parse_ok", J::Bool(false)));
            return J::Obj(rec);
        }
    };
    // item must be syntactically an impl / trait for the comparison to make sense
    rec.push(("parse_ok", J::Bool(true)));
    let e1 = expand(mac, attr.clone(), item.clone());
    let e2 = expand(mac, attr, item);
    rec.push(("dirty", J::Bool(e1.dirty)));
    rec.push((
        "panic",
        match &e1.panic {
            Some(m) => st(m),
            None => J::Null,
        },
    ));
    rec.push((
        "deterministic",
        J::Bool(e1.out == e2.out && e1.dirty == e2.dirty && e1.panic == e2.panic),
    ));
    let out = match e1.out {
        Some(o) => o,
        None => return J::Obj(rec),
    };
    rec.push(("digest", st(&fnv(&out))));
    rec.push(("out_len", J::Num(out.len() as i64)));
    let file: Result<syn::File, _> = syn::parse_str(&out);
    let file = match file {
        Ok(f) => f,
        Err(e) => {
            rec.push(("out_parse_ok", J::Bool(false)));
            rec.push(("out_parse_err", st(&e.to_string())));
            rec.push(("out_head", st(&out.chars().take(400).collect::<String>())));
            return J::Obj(rec);
        }
    };
    rec.push(("out_parse_ok", J::Bool(true)));
    // compile_error! invocations at item level (syn::Error path)
    let mut cerrs = vec![];
    for it in &file.items {
        if let syn::Item::Macro(m) = it {
            if m.mac.path.segments.last().map(|s| s.ident == "compile_error").unwrap_or(false) {
                cerrs.push(J::Str(m.mac.tokens.to_string()));
            }
        }
    }
    // also compile_error nested anywhere (cheap textual test)
    rec.push(("compile_errors", J::Arr(cerrs)));
    rec.push(("has_compile_error", J::Bool(out.contains("compile_error"))));
    // pass-through check
    let first = file.items.first().map(|i| i.to_token_stream().to_string());
    let expected = expected_first(mac, item_src);
    match (&first, &expected) {
        (Some(f), Some(e)) => {
            // a trailing comma in a parenthesised list carries no meaning; do not demand it back
            let f = &f.replace(" ,)", ")").replace("(,)", "()");
            let e = &e.replace(" ,)", ")").replace("(,)", "()");
            let ok = f == e;
            rec.push(("passthrough_ok", J::Bool(ok)));
            if !ok {
                // first differing window
                let fa: Vec<&str> = f.split(' ').collect();
                let ea: Vec<&str> = e.split(' ').collect();
                let mut k = 0;
                while k < fa.len() && k < ea.len() && fa[k] == ea[k] {
                    k += 1;
                }
                let lo = k.saturating_sub(8);
                rec.push(("pt_got", st(&fa[lo..(k + 12).min(fa.len())].join(" "))));
                rec.push(("pt_want", st(&ea[lo..(k + 12).min(ea.len())].join(" "))));
            }
        }
        _ => {
            rec.push(("passthrough_ok", J::Null));
        }
    }
    rec.push(("n_items", J::Num(file.items.len() as i64)));
    if o.items {
        let items: Vec<J> = file.items.iter().skip(1).filter_map(|i| item_j(i, &o)).collect();
        rec.push(("items", J::Arr(items)));
    }
    if o.binders {
        let mut bc = BinderCollector { cur: vec![], out: BTreeSet::new() };
        for it in file.items.iter().skip(1) {
            syn::visit::Visit::visit_item(&mut bc, it);
        }
        rec.push(("binders", J::Arr(bc.out.iter().map(|(f, n)| J::Arr(vec![J::Str(f.clone()), J::Str(n.clone())])).collect())));
    }
    J::Obj(rec)
}

// ------------------------------------------------------------------------------------------
// real source files: find every item carrying a sylvia macro attribute and expand it the way
// rustc would (outermost attribute first; the remaining attributes stay on the item).

fn macro_kind(a: &syn::Attribute) -> Option<&'static str> {
    let last = a.path().segments.last()?.ident.to_string();
    let first = a.path().segments.first()?.ident.to_string();
    let n = a.path().segments.len();
    let ok_prefix = n == 1 || (n == 2 && (first == "sylvia" || first == "sylvia_derive"));
    if !ok_prefix {
        return None;
    }
    match last.as_str() {
        "contract" => Some("contract"),
        "interface" => Some("interface"),
        "entry_points" => Some("entry_points"),
        _ => None,
    }
}

fn attr_args(a: &syn::Attribute) -> String {
    match &a.meta {
        syn::Meta::List(l) => l.tokens.to_string(),
        _ => String::new(),
    }
}

fn collect_file_items(items: &[syn::Item], out: &mut Vec<(String, String, String)>) {
    for it in items {
        match it {
            syn::Item::Mod(m) => {
                if let Some((_, inner)) = &m.content {
                    collect_file_items(inner, out);
                }
            }
            syn::Item::Impl(i) => {
                let mut item = i.clone();
                // expand attribute macros in order of appearance
                loop {
                    let pos = item.attrs.iter().position(|a| macro_kind(a).is_some());
                    let Some(pos) = pos else { break };
                    let a = item.attrs.remove(pos);
                    let kind = macro_kind(&a).unwrap();
                    // cfg_attr etc. are left alone
                    out.push((kind.to_string(), attr_args(&a), item.to_token_stream().to_string()));
                }
            }
            syn::Item::Trait(t) => {
                let mut item = t.clone();
                loop {
                    let pos = item.attrs.iter().position(|a| macro_kind(a).is_some());
                    let Some(pos) = pos else { break };
                    let a = item.attrs.remove(pos);
                    let kind = macro_kind(&a).unwrap();
                    out.push((kind.to_string(), attr_args(&a), item.to_token_stream().to_string()));
                }
            }
            _ => {}
        }
    }
}

fn observe_file(id: &str, path: &str, want: &str) -> Vec<J> {
    let src = match std::fs::read_to_string(path) {
        Ok(s) => s,
        Err(e) => {
            return vec![J::Obj(vec![
                ("id", st(id)),
                ("mac", st("file")),
                ("file_error", st(&e.to_string())),
            ])]
        }
    };
    let file: syn::File = match syn::parse_str(&src) {
        Ok(f) => f,
        Err(e) => {
            return vec![J::Obj(vec![
                ("id", st(id)),
                ("mac", st("file")),
                ("file_error", st(&e.to_string())),
            ])]
        }
    };
    let mut found = vec![];
    collect_file_items(&file.items, &mut found);
    let mut out = vec![J::Obj(vec![
        ("id", st(id)),
        ("mac", st("file")),
        ("path", st(path)),
        ("n_found", J::Num(found.len() as i64)),
    ])];
    for (k, (mac, attr, item)) in found.iter().enumerate() {
        let mut r = observe(&format!("{}#{}", id, k), mac, attr, item, want);
        if let J::Obj(v) = &mut r {
            v.push(("path", st(path)));
            v.push(("item_src", st(item)));
            v.push(("attr_src", st(attr)));
        }
        out.push(r);
    }
    out
}

// ------------------------------------------------------------------------------------------

#[test]
fn verif_e1() {
    let inp = match std::env::var("VERIF_E1_IN") {
        Ok(p) => p,
        Err(_) => {
            eprintln!("verif_e1: VERIF_E1_IN not set, nothing to do");
            return;
        }
    };
    let outp = std::env::var("VERIF_E1_OUT").expect("VERIF_E1_OUT");
    let threads: usize = std::env::var("VERIF_E1_THREADS")
        .ok()
        .and_then(|s| s.parse().ok())
        .unwrap_or(16);
    std::panic::set_hook(Box::new(|_| {}));
    let data = std::fs::read_to_string(&inp).expect("read input");
    let recs: Vec<Vec<String>> = data
        .split('\u{1e}')
        .filter(|r| !r.trim().is_empty())
        .map(|r| r.split('\u{1f}').map(|f| f.to_string()).collect())
        .collect();
    let recs = Arc::new(recs);
    let next = Arc::new(AtomicUsize::new(0));
    let results: Arc<Mutex<Vec<(usize, String)>>> = Arc::new(Mutex::new(Vec::new()));
    let mut hs = vec![];
    for _ in 0..threads {
        let recs = recs.clone();
        let next = next.clone();
        let results = results.clone();
        hs.push(
            std::thread::Builder::new()
                .stack_size(64 << 20)
                .spawn(move || {
                    let mut local: Vec<(usize, String)> = vec![];
                    loop {
                        let i = next.fetch_add(1, Ordering::SeqCst);
                        if i >= recs.len() {
                            break;
                        }
                        let r = &recs[i];
                        if r.len() < 5 {
                            local.push((i, format!("{{\"id\":\"?\",\"bad_record\":{}}}", i)));
                            continue;
                        }
                        let id = r[0].trim();
                        let mut line = String::new();
                        let caught = catch_unwind(AssertUnwindSafe(|| {
                            if r[1] == "file" {
                                observe_file(id, &r[3], &r[4])
                            } else {
                                vec![observe(id, &r[1], &r[2], &r[3], &r[4])]
                            }
                        }));
                        match caught {
                            Ok(js) => {
                                for (k, j) in js.iter().enumerate() {
                                    if k > 0 {
                                        line.push('\n');
                                    }
                                    j.write(&mut line);
                                }
                            }
                            Err(_) => {
                                J::Obj(vec![("id", st(id)), ("harness_panic", J::Bool(true))])
                                    .write(&mut line);
                            }
                        }
                        local.push((i, line));
                    }
                    results.lock().unwrap().extend(local);
                })
                .unwrap(),
        );
    }
    for h in hs {
        h.join().unwrap();
    }
    let mut res = Arc::try_unwrap(results).unwrap().into_inner().unwrap();
    res.sort_by_key(|(i, _)| *i);
    let mut out = String::new();
    for (_, l) in res {
        out.push_str(&l);
        out.push('\n');
    }
    std::fs::write(&outp, out).expect("write output");
    let _ = std::panic::take_hook();
}
